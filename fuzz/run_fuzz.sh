#!/bin/bash
# Coverage-guided leg of the thorough tiers (cargo-fuzz / libFuzzer).
#   fuzz/run_fuzz.sh <ID> <RUN_DIR>
# Builds the target for property <ID> against the current snapshot, runs it for
# VERIF_FUZZ_SECONDS (default 300) in fork mode, re-judges every artifact on the deterministic
# path (`avra-verif fuzzreplay`) and appends what was done to the evidence file.
# exit 0 = nothing found, 1 = VIOLATION line printed, 2 = the fuzzing machinery failed.
set -u
ID="$1"; RUN_DIR="$2"
ROOT="$(cd "$(dirname "$0")/.." && pwd)"
case "$ID" in
  C16) T=raw; MAXLEN=65536 ;;
  C05) T=expr; MAXLEN=2048 ;;
  C14) T=style; MAXLEN=4096 ;;
  C02) T=layout; MAXLEN=4096 ;;
  C03) T=rel; MAXLEN=1024 ;;
  C06) T=data; MAXLEN=4096 ;;
  C08) T=cond; MAXLEN=4096 ;;
  C09) T=macro; MAXLEN=4096 ;;
  C10) T=syms; MAXLEN=4096 ;;
  C04) T=instr; MAXLEN=256 ;;
  C13) T=gate; MAXLEN=256 ;;
  *) exit 0 ;;
esac
BUDGET="${VERIF_FUZZ_SECONDS:-300}"
SEED="${VERIF_SEED:-0}"; [ "$SEED" = 0 ] && SEED=1   # libFuzzer: 0 means random
export CARGO_NET_OFFLINE=true RUST_BACKTRACE=0
cd "$ROOT/harness/fuzz" || exit 2
exec 9>"$ROOT/target/.build.lock"; flock 9
if ! cargo +nightly fuzz build "fuzz_$T" --target-dir "$ROOT/target/fuzz" >"$ROOT/target/build-fuzz.log" 2>&1; then
  echo "HARNESS-ERROR: fuzz target fuzz_$T does not build (see target/build-fuzz.log)" >&2; exit 2
fi
BIN="$ROOT/target/fuzz/x86_64-unknown-linux-gnu/release/fuzz_$T"
cp "$BIN" "$RUN_DIR/fuzz_$T" || exit 2
flock -u 9; exec 9>&-
WORK="$RUN_DIR/fuzz-$T"; mkdir -p "$WORK/corpus" "$WORK/artifacts"
[ -d "$ROOT/corpus/$T" ] && cp "$ROOT/corpus/$T"/* "$WORK/corpus/" 2>/dev/null
: > "$WORK/corpus/empty"
LOG="$WORK/fuzz.log"
( cd "$WORK" && VERIF_ROOT="$ROOT" "$RUN_DIR/fuzz_$T" corpus -artifact_prefix="$WORK/artifacts/" -max_total_time="$BUDGET" -seed="$SEED" \
    -max_len="$MAXLEN" -len_control=0 -timeout=20 -rss_limit_mb=3000 -fork=16 -ignore_crashes=1 -ignore_timeouts=1 -ignore_ooms=1 -print_final_stats=1 ) >"$LOG" 2>&1
frc=$?
EXECS=$(grep -oE "#[0-9]+: cov" "$LOG" | tail -1 | grep -oE "[0-9]+" | head -1)
COV=$(grep -oE "cov: [0-9]+" "$LOG" | tail -1 | grep -oE "[0-9]+")
UNITS=$(ls "$WORK/corpus" | wc -l)
rc=0; NART=0; NVIOL=0; MACH=0
mkdir -p "$ROOT/replays"
for a in "$WORK"/artifacts/*; do
  [ -f "$a" ] || continue
  NART=$((NART+1))
  out=$(timeout 300 "$RUN_DIR/avra-verif" fuzzreplay "$T" "$a" 2>&1); r=$?
  if [ $r -ge 124 ]; then
    echo "HARNESS-ERROR: re-judging artifact $a did not finish (kept in $ROOT/replays for inspection)" >&2
    cp "$a" "$ROOT/replays/$ID-fuzz-unjudged-$(basename "$a")"; MACH=1
  elif [ $r -eq 1 ]; then
    keep="$ROOT/replays/$ID-fuzz-$(basename "$a")"
    cp "$a" "$keep"
    echo "$out" | sed "s#replay=$a#replay=$keep#"
    echo "  (libFuzzer artifact for target $T; re-judge with: harness avra-verif fuzzreplay $T $keep)"
    NVIOL=$((NVIOL+1)); rc=1
  else
    echo "$out" | grep -E "^KNOWN-FINDING" | sort -u
  fi
done
python3 - "$ROOT/evidence/$ID.json" "$T" "$BUDGET" "${EXECS:-0}" "${COV:-0}" "$UNITS" "$NART" "$NVIOL" "$frc" <<'PY'
import json,sys
p,t,budget,execs,cov,units,nart,nviol,frc=sys.argv[1:]
try:
    e=json.load(open(p))
except Exception:
    sys.exit(0)
e["coverage"]["libfuzzer_leg"]={"target":"fuzz_"+t,"seconds":int(budget),"executions_reported":int(execs),"edge_coverage_reported":int(cov),"corpus_units_at_end":int(units),"artifacts":int(nart),"artifacts_confirmed_as_violations":int(nviol),"engine_exit":int(frc),
  "note":"bytes are decoded into the same generator values as the proptest leg (bounded byte-cursor decoders, harness/src/decode.rs) and judged by the same oracle inside the target; artifacts are re-judged by `avra-verif fuzzreplay` without the engine; the campaign is only approximately reproducible (-seed), the artifact is the reproducible unit"}
e["violations"]=int(e.get("violations",0))+int(nviol)
json.dump(e,open(p,"w"),indent=2)
PY
echo "$ID fuzz leg: target=fuzz_$T seconds=$BUDGET executions=${EXECS:-?} coverage=${COV:-?} artifacts=$NART violations=$NVIOL"
[ $rc -eq 0 ] && [ $MACH -eq 1 ] && rc=2
exit $rc
