#![no_main]
use libfuzzer_sys::fuzz_target;

fuzz_target!(|data: &[u8]| {
    avra_verif::fuzz::fuzz_entry("instr", data);
});
