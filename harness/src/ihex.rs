//! Independent, strict Intel HEX reader (does not use the `ihex` crate the tool writes with).

use std::collections::BTreeMap;

#[derive(Debug, Clone, PartialEq)]
pub struct Decoded {
    pub bytes: BTreeMap<u64, u8>,
    pub records: usize,
    pub ext_records: usize,
}

fn hexval(c: u8) -> Option<u8> {
    match c {
        b'0'..=b'9' => Some(c - b'0'),
        b'A'..=b'F' => Some(c - b'A' + 10),
        b'a'..=b'f' => Some(c - b'a' + 10),
        _ => None,
    }
}

/// Parses a whole file.  Every line must be a well-formed record (`:LLAAAATT<data>CC`, hex digits
/// only, length and checksum verified, type 00..05); exactly one EOF record, nothing
/// after it, no empty lines; no byte may be written twice.
pub fn parse(text: &[u8]) -> Result<Decoded, String> {
    let mut bytes: BTreeMap<u64, u8> = BTreeMap::new();
    let mut base: u64 = 0;
    let mut seg_mode = true;
    let mut eof_seen = false;
    let mut records = 0;
    let mut ext_records = 0;
    let s = std::str::from_utf8(text).map_err(|_| "file is not ASCII/UTF-8".to_string())?;
    let pieces: Vec<&str> = s.split('\n').collect();
    for (ln, raw) in pieces.iter().enumerate() {
        let line = raw.strip_suffix('\r').unwrap_or(raw);
        if line.is_empty() {
            // what follows the last line end is not a line; an empty line anywhere else is not a record
            if ln + 1 == pieces.len() && raw.is_empty() {
                continue;
            }
            return Err(format!("line {}: empty line (the file must consist of records only)", ln + 1));
        }
        if eof_seen {
            return Err(format!("line {}: content after the end-of-file record", ln + 1));
        }
        let b = line.as_bytes();
        if b[0] != b':' {
            return Err(format!("line {}: does not start with ':'", ln + 1));
        }
        if (b.len() - 1) % 2 != 0 {
            return Err(format!("line {}: odd number of hex digits", ln + 1));
        }
        let mut rec = vec![];
        for i in (1..b.len()).step_by(2) {
            let hi = hexval(b[i]).ok_or_else(|| format!("line {}: non-hex character", ln + 1))?;
            let lo = hexval(b[i + 1]).ok_or_else(|| format!("line {}: non-hex character", ln + 1))?;
            rec.push(hi << 4 | lo);
        }
        if rec.len() < 5 {
            return Err(format!("line {}: record too short", ln + 1));
        }
        let ll = rec[0] as usize;
        if rec.len() != ll + 5 {
            return Err(format!("line {}: length field {} does not match {} data bytes", ln + 1, ll, rec.len() - 5));
        }
        let sum: u32 = rec.iter().map(|x| *x as u32).sum();
        if sum & 0xff != 0 {
            return Err(format!("line {}: bad checksum", ln + 1));
        }
        let off = (rec[1] as u64) << 8 | rec[2] as u64;
        let data = &rec[4..4 + ll];
        records += 1;
        match rec[3] {
            0x00 => {
                for (i, d) in data.iter().enumerate() {
                    let addr = if seg_mode { base + ((off + i as u64) & 0xffff) } else { base + off + i as u64 };
                    if bytes.insert(addr, *d).is_some() {
                        return Err(format!("line {}: address {:#x} written twice", ln + 1, addr));
                    }
                }
            }
            0x01 => {
                if ll != 0 {
                    return Err(format!("line {}: EOF record with data", ln + 1));
                }
                eof_seen = true;
            }
            0x02 => {
                if ll != 2 {
                    return Err(format!("line {}: extended segment address record with length {}", ln + 1, ll));
                }
                base = ((data[0] as u64) << 8 | data[1] as u64) << 4;
                seg_mode = true;
                ext_records += 1;
            }
            0x04 => {
                if ll != 2 {
                    return Err(format!("line {}: extended linear address record with length {}", ln + 1, ll));
                }
                base = ((data[0] as u64) << 8 | data[1] as u64) << 16;
                seg_mode = false;
                ext_records += 1;
            }
            0x03 | 0x05 => {
                if ll != 4 {
                    return Err(format!("line {}: start address record with length {}", ln + 1, ll));
                }
            }
            t => return Err(format!("line {}: unknown record type {:02x}", ln + 1, t)),
        }
    }
    if !eof_seen {
        return Err("no end-of-file record".into());
    }
    Ok(Decoded { bytes, records, ext_records })
}

/// The decoded map must be exactly {i -> image[i]}.
pub fn matches_image(d: &Decoded, image: &[u8]) -> Result<(), String> {
    if d.bytes.len() != image.len() {
        // find the first discrepancy for the report
        for (i, b) in image.iter().enumerate() {
            match d.bytes.get(&(i as u64)) {
                Some(x) if x == b => {}
                Some(x) => return Err(format!("address {:#x}: file has {:02x}, image has {:02x} (file holds {} bytes, image {})", i, x, b, d.bytes.len(), image.len())),
                None => return Err(format!("address {:#x} missing from the file (file holds {} bytes, image {})", i, d.bytes.len(), image.len())),
            }
        }
        let extra = d.bytes.keys().find(|k| **k >= image.len() as u64);
        return Err(format!("file holds {} bytes, image {}; first byte outside the image at {:?}", d.bytes.len(), image.len(), extra));
    }
    for (i, b) in image.iter().enumerate() {
        match d.bytes.get(&(i as u64)) {
            Some(x) if x == b => {}
            Some(x) => return Err(format!("address {:#x}: file has {:02x}, image has {:02x}", i, x, b)),
            None => return Err(format!("address {:#x} missing from the file", i)),
        }
    }
    Ok(())
}
