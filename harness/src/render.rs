//! AST -> source text under a `Style`.
//!
//! A style is a seed plus a bit mask of enabled dimensions.  With mask 0 the rendering is
//! canonical (lower case, decimal, no optional white space, no comments, LF).  Every enabled
//! dimension draws its per-token decisions from a SplitMix64 stream keyed by (seed, dimension,
//! token counter) — a pure function of the generated `Style` value, so shrinking and replay work.

use crate::ast::*;

pub const D_COMMENT: u32 = 1 << 0; // trailing ; // /* */ comments
pub const D_BLANK: u32 = 1 << 1; // inserted blank and comment-only lines
pub const D_SPACE: u32 = 1 << 2; // spaces/tabs at the permitted positions
pub const D_CRLF: u32 = 1 << 3; // CRLF line ends (per line)
pub const D_CASE_MNEM: u32 = 1 << 4;
pub const D_CASE_REG: u32 = 1 << 5;
pub const D_CASE_FN: u32 = 1 << 6;
pub const D_CASE_SYM: u32 = 1 << 7;
pub const D_RADIX: u32 = 1 << 8;
pub const ALL_DIMS: u32 = (1 << 9) - 1;
pub const TOKEN_DIMS: u32 = D_CASE_MNEM | D_CASE_REG | D_CASE_FN | D_CASE_SYM | D_RADIX;

#[derive(Clone, Copy, Debug, PartialEq, Eq, Hash)]
pub struct Style {
    pub seed: u64,
    pub dims: u32,
}

impl Style {
    pub const CANON: Style = Style { seed: 0, dims: 0 };
    pub fn dim_count(&self) -> u32 {
        (self.dims & ALL_DIMS).count_ones()
    }
}

fn splitmix(mut x: u64) -> u64 {
    x = x.wrapping_add(0x9e3779b97f4a7c15);
    let mut z = x;
    z = (z ^ (z >> 30)).wrapping_mul(0xbf58476d1ce4e5b9);
    z = (z ^ (z >> 27)).wrapping_mul(0x94d049bb133111eb);
    z ^ (z >> 31)
}

pub struct Renderer {
    pub style: Style,
    counter: u64,
    pub out: String,
    /// 1-based line number of the first text line of every Ln, indexed by pre-order id
    pub line_of: Vec<usize>,
    cur_line: usize,
    /// symbols keep the spelling of their definition unless D_CASE_SYM is on
    pub in_macro_body: bool,
}

const HOSTILE_BASE: &[&str] = &["c", "was: /* ldi r16, 2", "/* open", "/*", "note: x", "mode: done", "lab: nop", "a:b::c", "see http://x.y/z", ":", "# not a directive", ". dot", "x ; y", "say \"hi\"", "it's", "a // b", "*/ not really", "@0 @1", "1, 2, 3", ".endif", "nop", "r16: .db 1", "gr\u{f6}\u{df}e \u{b5}s", "2 * n + 1", "**", ".endm .macro"];

/// Comment texts that look like code to a careless scanner; the last ones are banners: long runs
/// of characters that are operators or parentheses outside a comment.
fn hostile_comments() -> &'static Vec<String> {
    static H: std::sync::OnceLock<Vec<String>> = std::sync::OnceLock::new();
    H.get_or_init(|| {
        let mut v: Vec<String> = HOSTILE_BASE.iter().map(|s| s.to_string()).collect();
        for (unit, n) in [("-", 300usize), ("*", 300), ("(", 300), ("=+", 150), ("!~", 150), ("-", 127), ("-", 130), ("<<", 90), ("(1+", 140)] {
            v.push(unit.repeat(n));
        }
        v
    })
}

impl Renderer {
    pub fn new(style: Style) -> Self {
        Renderer { style, counter: 0, out: String::new(), line_of: vec![], cur_line: 1, in_macro_body: false }
    }

    fn pick(&mut self, dim: u32) -> u64 {
        self.counter += 1;
        if self.style.dims & dim == 0 {
            0
        } else {
            splitmix(self.style.seed ^ splitmix((dim as u64) << 32 | self.counter))
        }
    }

    fn ws0(&mut self) -> String {
        // optional white space (may be empty)
        match self.pick(D_SPACE) % 6 {
            0 | 1 => "".into(),
            2 => " ".into(),
            3 => "\t".into(),
            4 => "  ".into(),
            _ => " \t ".into(),
        }
    }
    fn ws1(&mut self) -> String {
        // mandatory white space
        match self.pick(D_SPACE) % 5 {
            0 | 1 => " ".into(),
            2 => "\t".into(),
            3 => "   ".into(),
            _ => "\t ".into(),
        }
    }
    fn recase(&mut self, dim: u32, s: &str) -> String {
        match self.pick(dim) % 4 {
            0 => s.to_string(),
            1 => s.to_uppercase(),
            2 => s.to_lowercase(),
            _ => {
                let mut h = splitmix(self.style.seed ^ self.counter);
                s.chars()
                    .map(|c| {
                        h = splitmix(h);
                        if h & 1 == 0 {
                            c.to_ascii_uppercase()
                        } else {
                            c.to_ascii_lowercase()
                        }
                    })
                    .collect()
            }
        }
    }
    fn number(&mut self, v: i64) -> String {
        debug_assert!(v >= 0);
        let r = self.pick(D_RADIX);
        let pad = ((r >> 8) % 3) as usize;
        let digits_case = (r >> 16) & 1 == 0;
        let hex = |v: i64| if digits_case { format!("{:x}", v) } else { format!("{:X}", v) };
        match r % 6 {
            0 | 1 => format!("{}", v),
            2 => format!("0x{}{}", "0".repeat(pad), hex(v)),
            3 => format!("${}{}", "0".repeat(pad), hex(v)),
            4 => {
                if v < (1 << 20) {
                    format!("0b{}{:b}", "0".repeat(pad), v)
                } else {
                    format!("0x{}", hex(v))
                }
            }
            _ => {
                // octal: a leading 0 followed by octal digits; 0 itself stays "0"
                if v == 0 {
                    "0".into()
                } else {
                    format!("0{:o}", v)
                }
            }
        }
    }

    pub fn expr(&mut self, e: &E) -> String {
        match e {
            E::Num(v) => self.number(*v),
            E::Chr(c) => format!("'{}'", *c as char),
            E::Sym(s) => self.recase(D_CASE_SYM, s),
            E::Pc => self.recase(D_CASE_SYM, "pc"),
            E::Arg(n) => format!("@{}", n),
            E::Big(t) | E::Flag(t) => t.clone(),
            E::Par(a) => {
                let a_ = self.expr(a);
                let (l, r) = (self.ws0(), self.ws0());
                format!("({}{}{})", l, a_, r)
            }
            E::Fn(f, a) => {
                let name = self.recase(D_CASE_FN, f.text());
                let sp = self.ws0();
                let (l, r) = (self.ws0(), self.ws0());
                let a_ = self.expr(a);
                format!("{}{}({}{}{})", name, sp, l, a_, r)
            }
            E::Un(op, a) => {
                // the operand of a unary operator is parenthesised unless it is an atom
                // (nested unary operators too: `--x` is not in the operator table)
                let inner = self.expr(a);
                if a.is_atom() {
                    format!("{}{}", op.text(), inner)
                } else {
                    format!("{}({})", op.text(), inner)
                }
            }
            E::Bin(op, a, b) => {
                let p = op.prec();
                let la = self.expr(a);
                let lb = self.expr(b);
                let la = if needs_paren_left(a, p) { format!("({})", la) } else { la };
                let lb = if needs_paren_right(b, p) { format!("({})", lb) } else { lb };
                let (s1, s2) = (self.ws0(), self.ws0());
                format!("{}{}{}{}{}", la, s1, op.text(), s2, lb)
            }
        }
    }

    fn reg(&mut self, r: u8) -> String {
        self.recase(D_CASE_REG, &format!("r{}", r))
    }
    fn ptr(&mut self, p: Ptr) -> String {
        self.recase(D_CASE_REG, &format!("{:?}", p).to_lowercase())
    }

    pub fn opnd(&mut self, o: &Opnd) -> String {
        match o {
            Opnd::Reg(r) => self.reg(*r),
            Opnd::Alias(a) => self.recase(D_CASE_SYM, a),
            Opnd::Ptr(p, PMode::Plain) => self.ptr(*p),
            Opnd::Ptr(p, PMode::PostInc) => format!("{}+", self.ptr(*p)),
            Opnd::Ptr(p, PMode::PreDec) => format!("-{}", self.ptr(*p)),
            // no white space inside an index form (grammar limitation, DESIGN §4)
            Opnd::PtrQ(p, e) => {
                let saved = self.style;
                self.style.dims &= !D_SPACE;
                let s = format!("{}+{}", self.ptr(*p), self.expr(e));
                self.style = saved;
                s
            }
            Opnd::Ex(e) => self.expr(e),
            Opnd::Arg(n) => format!("@{}", n),
        }
    }

    fn comma(&mut self) -> String {
        if self.style.dims & D_SPACE == 0 {
            ", ".into()
        } else {
            let (a, b) = (self.ws0(), self.ws0());
            format!("{},{}", a, b)
        }
    }

    fn string_lit(&mut self, s: &str) -> String {
        format!("\"{}\"", s)
    }

    fn stmt_text(&mut self, st: &St) -> String {
        match st {
            St::Ins(m, ops) => {
                let mn = self.recase(D_CASE_MNEM, m);
                if ops.is_empty() {
                    mn
                } else {
                    let sp = self.ws1();
                    let mut parts = vec![];
                    for o in ops {
                        parts.push(self.opnd(o));
                    }
                    let mut s = format!("{}{}", mn, sp);
                    for (i, p) in parts.iter().enumerate() {
                        if i > 0 {
                            s.push_str(&self.comma());
                        }
                        s.push_str(p);
                    }
                    s
                }
            }
            St::Call(name, ops) => {
                let mn = self.recase(D_CASE_MNEM, name);
                if ops.is_empty() {
                    mn
                } else {
                    let sp = self.ws1();
                    let mut s = format!("{}{}", mn, sp);
                    for (i, o) in ops.iter().enumerate() {
                        if i > 0 {
                            s.push_str(&self.comma());
                        }
                        let t = self.opnd(o);
                        s.push_str(&t);
                    }
                    s
                }
            }
            St::Data(k, items) => {
                let sp = self.ws1();
                let mut s = format!("{}{}", k.text(), sp);
                for (i, it) in items.iter().enumerate() {
                    if i > 0 {
                        s.push_str(&self.comma());
                    }
                    let t = match it {
                        DItem::Ex(e) => self.expr(e),
                        DItem::Str(x) => self.string_lit(x),
                    };
                    s.push_str(&t);
                }
                s
            }
            St::Byte(e) => format!(".byte{}{}", self.ws1(), self.expr(e)),
            St::Org(e) => format!(".org{}{}", self.ws1(), self.expr(e)),
            St::Seg(s) => s.directive().to_string(),
            St::Equ(n, e) => {
                let (a, b, c) = (self.ws1(), self.ws0(), self.ws0());
                let ee = self.expr(e);
                format!(".equ{}{}{}={}{}", a, n, b, c, ee)
            }
            St::Set(n, e) => {
                let (a, b, c) = (self.ws1(), self.ws0(), self.ws0());
                let nn = self.recase(D_CASE_SYM, n);
                let ee = self.expr(e);
                format!(".set{}{}{}={}{}", a, nn, b, c, ee)
            }
            St::Def(n, r) => {
                let (a, b, c) = (self.ws1(), self.ws0(), self.ws0());
                let nn = self.recase(D_CASE_SYM, n);
                let rr = self.reg(*r);
                format!(".def{}{}{}={}{}", a, nn, b, c, rr)
            }
            St::Undef(n) => {
                let a = self.ws1();
                let nn = self.recase(D_CASE_SYM, n);
                format!(".undef{}{}", a, nn)
            }
            St::Device(d) => format!(".device{}{}", self.ws1(), d),
            St::Define(n) => format!(".define{}{}", self.ws1(), n),
            St::Msg(k, t) => format!("{}{}\"{}\"", k.directive(), self.ws1(), t),
            St::Exit => ".exit".into(),
            St::Raw(t) => t.clone(),
            St::If(..) | St::MacroDef(..) => unreachable!("block statements are rendered by lines()"),
        }
    }

    fn eol(&mut self) {
        if self.style.dims & D_CRLF != 0 && self.pick(D_CRLF) % 3 != 0 {
            self.out.push_str("\r\n");
        } else {
            self.out.push('\n');
        }
        self.cur_line += 1;
    }

    fn filler(&mut self) {
        if self.style.dims & D_BLANK == 0 || self.in_macro_body {
            return;
        }
        let n = self.pick(D_BLANK) % 4;
        if n >= 2 {
            return;
        }
        for _ in 0..=n {
            match self.pick(D_BLANK) % 4 {
                0 => {}
                1 => self.out.push_str("  \t"),
                2 => {
                    let i = (self.pick(D_BLANK) % hostile_comments().len() as u64) as usize;
                    self.out.push_str(&format!("; {}", hostile_comments()[i]));
                }
                _ => {
                    let i = (self.pick(D_BLANK) % hostile_comments().len() as u64) as usize;
                    if i % 3 == 0 && !hostile_comments()[i].contains("*/") {
                        self.out.push_str(&format!("/* {} */", hostile_comments()[i]));
                    } else {
                        self.out.push_str(&format!("  // {}", hostile_comments()[i]));
                    }
                }
            }
            self.eol();
        }
    }

    fn trailing(&mut self, raw: bool) {
        if raw || self.style.dims & D_COMMENT == 0 {
            return;
        }
        let k = self.pick(D_COMMENT);
        let i = ((k >> 8) % hostile_comments().len() as u64) as usize;
        let text = hostile_comments()[i].as_str();
        let sp = if self.style.dims & D_SPACE != 0 { self.ws0() } else { " ".to_string() };
        match k % 5 {
            0 | 1 => {}
            2 => self.out.push_str(&format!("{}; {}", sp, text)),
            3 => self.out.push_str(&format!("{}// {}", sp, text)),
            _ => {
                if !text.contains("*/") {
                    self.out.push_str(&format!("{}/* {} */", sp, text))
                } else {
                    self.out.push_str(&format!("{}/* c */", sp))
                }
            }
        }
    }

    /// one physical line: optional label, optional statement text
    fn emit(&mut self, label: Option<&str>, text: Option<String>, raw: bool) {
        self.filler();
        let mut line = String::new();
        match (label, &text) {
            (Some(l), Some(t)) => {
                let sp = if self.style.dims & D_SPACE != 0 { self.ws0() } else { " ".into() };
                line.push_str(&format!("{}:{}{}", l, sp, t));
            }
            (Some(l), None) => line.push_str(&format!("{}:", l)),
            (None, Some(t)) => {
                if !raw && self.style.dims & D_SPACE != 0 {
                    line.push_str(&self.ws0());
                }
                line.push_str(t);
            }
            (None, None) => {}
        }
        self.out.push_str(&line);
        let empty = label.is_none() && text.is_none();
        if !empty {
            if !raw && self.style.dims & D_SPACE != 0 && self.style.dims & D_COMMENT == 0 {
                let t = self.ws0();
                self.out.push_str(&t);
            }
            self.trailing(raw);
        }
        self.eol();
    }

    pub fn lines(&mut self, ls: &[Ln]) {
        for l in ls {
            // first physical line of this Ln (fillers come before it, so record after filler)
            let id = self.line_of.len();
            self.line_of.push(0);
            match &l.st {
                Some(St::If(arms, els)) => {
                    for (i, (c, body)) in arms.iter().enumerate() {
                        let sp = self.ws1();
                        let head = match (i, c) {
                            (0, Cond::Expr(e)) => format!(".if{}{}", sp, self.expr(e)),
                            (0, Cond::Ifdef(n)) => format!(".ifdef{}{}", sp, n),
                            (0, Cond::Ifndef(n)) => format!(".ifndef{}{}", sp, n),
                            (_, Cond::Expr(e)) => format!(".elif{}{}", sp, self.expr(e)),
                            _ => panic!("only expression conditions are allowed on .elif"),
                        };
                        self.emit(if i == 0 { l.label.as_deref() } else { None }, Some(head), false);
                        if i == 0 {
                            self.line_of[id] = self.cur_line - 1;
                        }
                        self.lines(body);
                    }
                    if let Some(b) = els {
                        self.emit(None, Some(".else".into()), false);
                        self.lines(b);
                    }
                    self.emit(None, Some(".endif".into()), false);
                }
                Some(St::MacroDef(name, body)) => {
                    let head = format!(".macro{}{}", self.ws1(), name);
                    self.emit(l.label.as_deref(), Some(head), false);
                    self.line_of[id] = self.cur_line - 1;
                    let saved = self.in_macro_body;
                    self.in_macro_body = true;
                    self.lines(body);
                    self.in_macro_body = saved;
                    self.emit(None, Some(".endm".into()), false);
                }
                Some(st) => {
                    let raw = matches!(st, St::Raw(_));
                    let t = self.stmt_text(st);
                    self.emit(l.label.as_deref(), Some(t), raw);
                    self.line_of[id] = self.cur_line - 1;
                }
                None => {
                    self.emit(l.label.as_deref(), None, false);
                    self.line_of[id] = self.cur_line - 1;
                }
            }
        }
    }
}

fn needs_paren_left(e: &E, parent: u8) -> bool {
    match e {
        E::Bin(op, _, _) => op.prec() < parent,
        _ => false,
    }
}
fn needs_paren_right(e: &E, parent: u8) -> bool {
    match e {
        // binary operators associate to the left: an equal-precedence right child needs parentheses
        E::Bin(op, _, _) => op.prec() <= parent,
        _ => false,
    }
}

pub struct Rendered {
    pub text: String,
    pub line_of: Vec<usize>,
}

pub fn render(prog: &[Ln], style: Style) -> Rendered {
    let mut r = Renderer::new(style);
    r.lines(prog);
    Rendered { text: r.out, line_of: r.line_of }
}

pub fn render_expr(e: &E, style: Style) -> String {
    Renderer::new(style).expr(e)
}

/// Rendering with every sub-expression parenthesised (used for the full-parenthesis reference).
pub fn render_full_parens(e: &E) -> String {
    match e {
        E::Num(v) => format!("{}", v),
        E::Chr(c) => format!("'{}'", *c as char),
        E::Sym(s) => s.clone(),
        E::Pc => "pc".into(),
        E::Arg(n) => format!("@{}", n),
        E::Big(t) | E::Flag(t) => t.clone(),
        E::Par(a) => format!("({})", render_full_parens(a)),
        E::Fn(f, a) => format!("{}({})", f.text(), render_full_parens(a)),
        E::Un(op, a) => format!("({}({}))", op.text(), render_full_parens(a)),
        E::Bin(op, a, b) => format!("(({}){}({}))", render_full_parens(a), op.text(), render_full_parens(b)),
    }
}

/// How many parenthesis pairs the minimal rendering saves relative to full parenthesisation, and
/// whether the tree mixes precedence levels or has a same-level right-nested pair (C05's rule).
pub fn paren_stats(e: &E) -> (usize, bool) {
    let mut omitted = 0usize;
    let mut interesting = false;
    fn walk(e: &E, omitted: &mut usize, interesting: &mut bool) {
        match e {
            E::Bin(op, a, b) => {
                let p = op.prec();
                for (child, right) in [(a, false), (b, true)] {
                    if let E::Bin(cop, _, _) = &**child {
                        let need = if right { cop.prec() <= p } else { cop.prec() < p };
                        if !need {
                            *omitted += 1;
                        }
                        if cop.prec() != p || right {
                            *interesting = true;
                        }
                    }
                    if let E::Un(_, _) = &**child {
                        *omitted += 1;
                        *interesting = true;
                    }
                }
                walk(a, omitted, interesting);
                walk(b, omitted, interesting);
            }
            E::Un(_, a) | E::Fn(_, a) | E::Par(a) => walk(a, omitted, interesting),
            _ => {}
        }
    }
    walk(e, &mut omitted, &mut interesting);
    (omitted, interesting)
}
