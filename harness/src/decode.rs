//! Byte-level decoders for the generator recipes (used by the libFuzzer targets).
//!
//! proptest's pass-through RNG turned out to be unusable for this: every forked strategy halves
//! the remaining bytes and, once they are used up, rejection sampling spins on the zeros it gets
//! (observed as `timeout-` artifacts that were the harness's own hang).  The recipes are plain
//! data, so they are decoded directly with a byte cursor instead: every loop is bounded and an
//! exhausted input simply reads as zeros.  Mutating one byte changes one generator decision,
//! which is what coverage-guided fuzzing needs.

use crate::ast::*;
use crate::props::{c02, c03, c05, c06, c08, c09, c10, c14};
use crate::render::{Style, ALL_DIMS};

pub struct Cur<'a> {
    d: &'a [u8],
    i: usize,
}

impl<'a> Cur<'a> {
    pub fn new(d: &'a [u8]) -> Self {
        Cur { d, i: 0 }
    }
    pub fn u8(&mut self) -> u8 {
        let v = self.d.get(self.i).copied().unwrap_or(0);
        self.i += 1;
        v
    }
    pub fn bool(&mut self) -> bool {
        self.u8() & 1 == 1
    }
    pub fn u16(&mut self) -> u16 {
        self.u8() as u16 | (self.u8() as u16) << 8
    }
    pub fn u32(&mut self) -> u32 {
        self.u16() as u32 | (self.u16() as u32) << 16
    }
    pub fn u64(&mut self) -> u64 {
        self.u32() as u64 | (self.u32() as u64) << 32
    }
    /// 0..n
    pub fn below(&mut self, n: usize) -> usize {
        if n <= 1 {
            0
        } else if n <= 256 {
            self.u8() as usize % n
        } else {
            self.u16() as usize % n
        }
    }
    pub fn vec<T>(&mut self, min: usize, max: usize, mut f: impl FnMut(&mut Cur<'a>) -> T) -> Vec<T> {
        let n = min + self.below(max - min + 1);
        (0..n).map(|_| f(self)).collect()
    }
    pub fn string(&mut self) -> String {
        // printable ASCII without the double quote, occasionally multi-byte
        let n = self.below(10);
        (0..n)
            .map(|_| {
                let b = self.u8();
                match b {
                    0xf0..=0xff => 'é',
                    _ => {
                        let c = 0x20 + b % 0x5f;
                        if c == b'"' {
                            'q'
                        } else {
                            c as char
                        }
                    }
                }
            })
            .collect()
    }
    pub fn style(&mut self) -> Style {
        Style { seed: self.u64(), dims: self.u16() as u32 & ALL_DIMS }
    }
}

pub fn names(n: usize) -> Vec<String> {
    // fixed pool (pairwise distinct after lower-casing, never r/x/y/z first, `_<i>` suffix)
    let stems = ["a", "Bq", "c_d", "E9", "foo", "G_", "hh", "Ij", "k2", "Lmn", "mm", "N", "o_o", "Pq", "q1", "S", "tt", "Uv", "vw", "W"];
    (0..n).map(|i| format!("{}_{}", stems[i % stems.len()], i)).collect()
}

const LITS: &[i64] = &[0, 1, 2, 3, 7, 8, 15, 16, 63, 64, 127, 128, 255, 256, 32767, 32768, 65535, 65536, 0x7fffffff, 0x80000000, 0xffffffff, 0x100000000, i64::MAX];

pub fn expr(c: &mut Cur, depth: u32, syms: &[String], args: u8) -> E {
    let k = c.u8();
    if depth == 0 || k < 90 {
        return match k % 9 {
            0..=3 => E::Num((c.u8() % 16) as i64),
            4 => E::Num(c.u16() as i64),
            5 => E::Num(LITS[c.below(LITS.len())]),
            6 => E::Chr({
                let b = 0x20 + c.u8() % 0x5f;
                if b == b'\'' {
                    b'q'
                } else {
                    b
                }
            }),
            7 if !syms.is_empty() => {
                let s = &syms[c.below(syms.len())];
                E::Sym(crate::gen::recase(s, c.u8(), c.u32()))
            }
            8 if args > 0 => E::Arg(c.u8() % args),
            _ => E::Num(c.u32() as i64),
        };
    }
    match k % 16 {
        0..=9 => {
            let op = ALL_BINOPS[c.below(ALL_BINOPS.len())];
            let a = expr(c, depth - 1, syms, args);
            let b = expr(c, depth - 1, syms, args);
            E::bin(op, a, b)
        }
        10 => {
            let l = c.bool();
            let a = expr(c, depth - 1, syms, args);
            E::bin(if l { BinOp::Shl } else { BinOp::Shr }, a, E::Num((c.u8() % 70) as i64))
        }
        11 | 12 => {
            let op = [UnOp::Neg, UnOp::Not, UnOp::Inv][c.below(3)];
            E::un(op, expr(c, depth - 1, syms, args))
        }
        13 | 14 => {
            let f = ALL_FUNCS[c.below(ALL_FUNCS.len())];
            let a = if f == Func::Exp2 { E::Num((c.u8() % 70) as i64) } else { expr(c, depth - 1, syms, args) };
            E::Fn(f, Box::new(a))
        }
        _ => E::Par(Box::new(expr(c, depth - 1, syms, args))),
    }
}

pub fn tree_case(c: &mut Cur) -> c05::TreeCase {
    let nm = names(5);
    let equs = (0..3).map(|_| ((if c.bool() { -1 } else { 1 }) * LITS[c.below(LITS.len() - 1)], c.bool())).collect();
    let nlabels = c.below(3);
    let style = c.style();
    let e = expr(c, 5, &nm, 0);
    c05::TreeCase { names: nm, equs, nlabels, e, style }
}

pub fn rel_case(c: &mut Cur) -> c03::RelCase {
    let kind = c.below(22);
    let lim: i64 = if kind >= 20 { 2048 } else { 64 };
    let off = c.u16() as i64 - 32768;
    let d = match c.below(11) {
        0..=2 => (if off < 0 { -lim } else { lim - 1 }) + off % 6,
        3..=7 => off % lim,
        8 | 9 => off % (lim + 300),
        _ => (off % lim) + [2 * lim, -2 * lim, 256, -256, 65536, -65536][(off.unsigned_abs() % 6) as usize],
    };
    let dev = c.below(8) as u8;
    let dev = if dev >= 4 { 0 } else { dev };
    let dev = if dev == 1 && d.abs() > 800 { 0 } else if dev == 2 && d.abs() > 3500 { 0 } else { dev };
    c03::RelCase { kind, s: c.u8() % 8, d, prefix: c.u8(), filler: c.vec(0, 11, |c| c.u8()), spelling: c.u8() % 6, k: c.u8(), dev, style: c.style() }
}

pub fn raw_data(c: &mut Cur) -> c06::RawData {
    let blocks = c.vec(1, 3, |c| {
        let ee = c.bool();
        let lines = c.vec(1, 4, |c| c06::RawLine {
            kind: c.u8() % 4,
            label: c.bool(),
            vals: c.vec(1, 7, |c| {
                let v = match c.below(12) {
                    0..=4 => c06::RawVal::Edge(c.u8() % 3, (c.u8() % 5) as i8 - 2),
                    5..=7 => c06::RawVal::Inside(c.u64()),
                    8..=10 => c06::RawVal::Str(c.string()),
                    _ => c06::RawVal::Label,
                };
                (v, c.u8())
            }),
        });
        let byte = if c.below(10) < 3 { Some(c.u8() % 20) } else { None };
        (ee, lines, byte)
    });
    let fault = match c.below(11) {
        0..=5 => c06::Fault::None,
        6 | 7 => c06::Fault::OutOfRange(c.u16(), c.bool()),
        8 => c06::Fault::StringInWord(c.u16()),
        9 => c06::Fault::DataInDseg(c.u16()),
        10 if c.bool() => c06::Fault::HugeLiteral(c.u16(), c.u8()),
        _ => c06::Fault::ByteInCseg(c.u16()),
    };
    c06::RawData { blocks, names: names(40), fault, style: c.style() }
}

fn raw_body(c: &mut Cur, depth: u32) -> Vec<c08::RawBody> {
    c.vec(0, 3, |c| match c.below(7) {
        0..=2 => c08::RawBody::Marker(c.u8()),
        3 | 4 => c08::RawBody::Poison(c.u8()),
        _ if depth > 0 => c08::RawBody::Nested(raw_cond(c, depth - 1)),
        _ => c08::RawBody::Marker(c.u8()),
    })
}

fn raw_cond(c: &mut Cur, depth: u32) -> c08::RawCond {
    let arms = c.vec(1, 4, |c| (c.bool(), c.u8(), raw_body(c, depth)));
    let els = if c.bool() { Some(raw_body(c, depth)) } else { None };
    c08::RawCond { arms, els }
}

pub fn raw_case(c: &mut Cur) -> c08::RawCase {
    let style = c.style();
    let top = c.vec(1, 3, |c| if c.below(4) == 0 { c08::RawBody::Marker(c.u8()) } else { c08::RawBody::Nested(raw_cond(c, 3)) });
    c08::RawCase { top, style }
}

pub fn raw_macros(c: &mut Cur) -> c09::RawMacros {
    let style = c.style();
    let macros = c.vec(1, 4, |c| c09::RawMacro { kinds: c.vec(0, 10, |c| c.u8() % 9), body: c.vec(1, 6, |c| (c.u8(), c.u8(), c.u8())), name_case: (c.u8(), c.u32()), excursion_at_end: c.below(4) == 0 });
    let calls = c.vec(1, 6, |c| c09::RawCall { mac: c.u16(), name_case: (c.u8(), c.u32()), raw: (0..24).map(|_| c.u8()).collect(), before_def: c.below(10) < 3 });
    let exprs = (0..6).map(|_| expr(c, 4, &[], 0)).collect();
    let leg = match c.below(10) {
        0 => c09::Leg::UndefinedMacro,
        1 => c09::Leg::MissingArgument(c.u16()),
        _ => c09::Leg::Valid,
    };
    c09::RawMacros { macros, calls, exprs, names: names(6), leg, style }
}

pub fn raw_syms(c: &mut Cur) -> c10::RawSyms {
    let mut style = c.style();
    style.dims &= !crate::render::D_CASE_SYM;
    let syms = c.vec(2, 9, |c| c10::RawSym { kind: c.u8() % 6, value: c.u16() });
    let steps = c.vec(4, 27, |c| c10::Step { ent: c.u16(), action: c.u8(), how: c.u8(), bits: c.u32() });
    let variant = match c.below(10) {
        0 => c10::Variant::DeleteDefinition(c.u16()),
        1 => c10::Variant::DuplicateLabel(c.u16()),
        2 => c10::Variant::AliasOutsideScope(c.u16()),
        3 => c10::Variant::SetBeforeAssignment(c.u16()),
        _ => c10::Variant::Valid,
    };
    c10::RawSyms { syms, steps, names: names(10), variant, style }
}

pub fn raw_prog(c: &mut Cur) -> c02::RawProg {
    let style = c.style();
    let dev = c.u16();
    let blocks = c.vec(1, 7, |c| c02::RawBlock {
        seg: c.u8() % 3,
        org_gap: if c.bool() { Some(c.u8() % 48) } else { None },
        org_style: c.u8(),
        items: c.vec(1, 7, |c| {
            let lab = c.bool();
            let it = match c.below(15) {
                0..=3 => c02::RawItem::Ins1(c.u8(), c.u8(), c.u8()),
                4..=6 => c02::RawItem::Ins2(c.u8(), c.u8(), c.u16()),
                7..=9 => c02::RawItem::Db(c.vec(1, 4, |c| (c.bool(), c.u8(), c.string()))),
                10 | 11 => c02::RawItem::Dw([DKind::Dw, DKind::Dd, DKind::Dq][c.below(3)], c.vec(1, 3, |c| c.u32())),
                _ => c02::RawItem::Byte(c.u8() % 40),
            };
            (lab, it)
        }),
        end_label: c.bool(),
    });
    c02::RawProg { dev, blocks, names: names(80), style }
}

pub fn pair(c: &mut Cur) -> c14::Pair {
    let s1 = c.style();
    let s2 = c.style();
    let prog = match c.below(7) {
        6 => c14::Prog::Rel(c03::clamp_reachable(rel_case(c))),
        0 => c14::Prog::Layout(raw_prog(c)),
        1 => c14::Prog::Expr(tree_case(c)),
        2 => {
            let mut d = raw_data(c);
            d.fault = c06::Fault::None;
            c14::Prog::Data(d)
        }
        3 => c14::Prog::Cond(raw_case(c)),
        4 => {
            let mut m = raw_macros(c);
            m.leg = c09::Leg::Valid;
            c14::Prog::Macro(m)
        }
        _ => {
            let mut s = raw_syms(c);
            s.variant = c10::Variant::Valid;
            c14::Prog::Syms(s)
        }
    };
    c14::Pair { prog, s1, s2 }
}

/// One instruction line with free-form operands, for the `instr` (C04) and `gate` (C13) targets.
#[derive(Clone, Debug)]
pub struct InstrCase {
    pub m: String,
    pub ops: Vec<crate::isa::Opd>,
    /// number of `nop`s in front (the instruction's own word address)
    pub pc: u8,
    /// index into the device table (+1), 0 = none
    pub dev: u16,
    /// how each value operand is spelled: 0 decimal, 1 hex when non-negative, 2 through `.equ`, 3 parenthesised, 4 `v+0`,
    /// 5 character literal (when v is a printable character, also far beyond one byte), 6 a `.set` variable
    /// re-assigned while `.dseg` is selected, 7 / 8 through a macro: a compound argument whose grouping
    /// matters, or a body that applies an operator to the parameter (one macro per line, so only the first
    /// value operand that asks for it gets it), 9 `~w` with w = !v, 10 `-w` with w = -v
    pub spell: Vec<u8>,
}

pub fn instr_case(c: &mut Cur) -> InstrCase {
    use crate::isa::{Opd, PMode, Ptr};
    let all = crate::isa::all_mnemonics();
    let m = all[c.below(all.len())].clone();
    let frame = crate::props::c04::baseline(&m);
    let pc = c.u8() % 6;
    let dev = c.u16();
    let ptr = |b: u8| [Ptr::X, Ptr::Y, Ptr::Z][(b % 3) as usize];
    let mode = |b: u8| [PMode::Plain, PMode::PostInc, PMode::PreDec][(b % 3) as usize];
    const EDGE: &[i64] = &[-2049, -2048, -2047, -129, -128, -127, -65, -64, -63, -33, -32, -1, 0, 1, 7, 8, 15, 16, 30, 31, 32, 33, 62, 63, 64, 65, 127, 128, 255, 256, 257, 2047, 2048, 2049, 4095, 4096, 65535, 65536, 65537, (1 << 22) - 1, 1 << 22, (1 << 22) + 1];
    let free = |c: &mut Cur| -> Opd {
        match c.below(12) {
            0..=2 => Opd::R(c.u8() % 40),
            3 => Opd::K(c.u8() as i64),
            4 => Opd::K(-(c.u8() as i64)),
            5 => Opd::K(EDGE[c.below(EDGE.len())]),
            6 => Opd::K(c.u16() as i64),
            7 => {
                // wrap-around twin of a small value
                let k = [1i64 << 8, 1 << 16, 1 << 32, -(1 << 8), -(1 << 16), -(1 << 32)][c.below(6)];
                Opd::K(c.u8() as i64 % 64 + k * (1 + c.below(3) as i64))
            }
            8 => Opd::K(c.u64() as i64 >> (c.u8() % 64)),
            9 => Opd::P(ptr(c.u8()), mode(c.u8())),
            10 => Opd::Q(ptr(c.u8()), c.u8() as i64 % 70 - 3),
            _ => Opd::Q(ptr(c.u8()), EDGE[c.below(EDGE.len())]),
        }
    };
    // mostly the mnemonic's own operand frame with some positions replaced, sometimes a free list
    let ops: Vec<Opd> = if c.below(4) == 0 {
        c.vec(0, 4, |c| free(c))
    } else {
        let mut v = frame.clone();
        for slot in v.iter_mut() {
            match c.below(4) {
                0 => {}
                1 => {
                    // same kind, other value
                    *slot = match slot {
                        Opd::R(_) => Opd::R(c.u8() % 34),
                        Opd::K(_) => match free(c) {
                            Opd::K(v) => Opd::K(v),
                            _ => Opd::K(c.u8() as i64),
                        },
                        Opd::P(..) => Opd::P(ptr(c.u8()), mode(c.u8())),
                        Opd::Q(..) => Opd::Q(ptr(c.u8()), c.u8() as i64 % 70 - 3),
                    }
                }
                _ => *slot = free(c),
            }
        }
        match c.below(8) {
            0 => {
                v.pop();
            }
            1 => v.push(free(c)),
            _ => {}
        }
        v
    };
    let spell = (0..ops.len()).map(|_| c.u8() % 11).collect();
    InstrCase { m, ops, pc, dev, spell }
}

impl InstrCase {
    /// (source, the operands the reference is asked about — identical to what is written)
    pub fn source(&self, device: Option<&str>) -> String {
        use crate::isa::Opd;
        let mut pre = String::new();
        if let Some(d) = device {
            pre.push_str(&format!(".device {}\n", d));
        }
        let mut parts = vec![];
        // (index of the operand passed through a macro, text of the argument, text standing for it in the body)
        let mut via_macro: Option<(usize, String, String)> = None;
        for (i, o) in self.ops.iter().enumerate() {
            let mut val = |v: i64, pre: &mut String| -> String {
                match self.spell.get(i).copied().unwrap_or(0) {
                    1 if v >= 0 => format!("0x{:x}", v),
                    2 => {
                        pre.push_str(&format!(".equ fz_k{} = {}\n", i, v));
                        format!("FZ_K{}", i)
                    }
                    3 => format!("({})", v),
                    4 => format!("{}+0", v),
                    5 => match u32::try_from(v).ok().and_then(char::from_u32) {
                        Some(ch) if v >= 0x20 && ch != '\'' && ch != '\\' && ch != '"' && !ch.is_control() && v != 0x7f => format!("'{}'", ch),
                        _ => v.to_string(),
                    },
                    // the value as the complement / the negation of another one
                    9 => {
                        let w = !v;
                        if w >= 0 {
                            format!("~{}", w)
                        } else {
                            format!("~({})", w)
                        }
                    }
                    10 if v.checked_neg().is_some() => {
                        let w = -v;
                        if w >= 0 {
                            format!("-{}", w)
                        } else {
                            format!("-({})", w)
                        }
                    }
                    6 => {
                        pre.push_str(&format!(".set fz_s{} = 1\n.dseg\n.set fz_s{} = {}\n.cseg\n", i, i, v));
                        format!("fz_S{}", i)
                    }
                    7 | 8 if via_macro.is_none() && v.checked_neg().is_some() && v.checked_neg().and_then(|n| n.checked_sub(3)).is_some() => {
                        // v = (a + b) * -1 with a = 3
                        let b = -v - 3;
                        let grouped = format!("(3+{})*-1", if b < 0 { format!("({})", b) } else { b.to_string() });
                        if self.spell[i] == 7 {
                            via_macro = Some((i, grouped, "@0".to_string()));
                        } else {
                            via_macro = Some((i, format!("3+{}", if b < 0 { format!("({})", b) } else { b.to_string() }), "@0*-1".to_string()));
                        }
                        "\u{1}".to_string()
                    }
                    _ => v.to_string(),
                }
            };
            parts.push(match o {
                Opd::K(v) => val(*v, &mut pre),
                Opd::Q(p, q) if *q >= 0 => format!("{:?}+{}", p, val(*q, &mut pre)),
                other => other.to_string(),
            });
        }
        let mut s = pre;
        let mut line = self.m.clone();
        if !parts.is_empty() {
            line.push(' ');
            line.push_str(&parts.join(", "));
        }
        if let Some((_, arg, body)) = &via_macro {
            s.push_str(&format!(".macro fz_m\n{}\n.endm\n", line.replace('\u{1}', body)));
            line = format!("FZ_M {}", arg);
        }
        for _ in 0..self.pc {
            s.push_str("nop\n");
        }
        s.push_str(&line);
        s.push('\n');
        s
    }
}
