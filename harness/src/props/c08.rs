//! C08 — conditional assembly assembles exactly the selected branch.

use crate::ast::*;
use crate::evidence::{fp, Ev, Violation};
use crate::gen;
use crate::model::{self, Expect, ModelOpts, ResolveMode};
use crate::oracle::Check;
use crate::par;
use crate::render::{render, Style};
use crate::Ctx;
use proptest::prelude::*;
use serde_json::json;

#[derive(Clone, Debug)]
pub enum RawBody {
    Marker(u8),
    Poison(u8),
    Nested(RawCond),
}

#[derive(Clone, Debug)]
pub struct RawCond {
    /// (intended truth, condition style, body)
    pub arms: Vec<(bool, u8, Vec<RawBody>)>,
    pub els: Option<Vec<RawBody>>,
}

#[derive(Clone, Debug)]
pub struct RawCase {
    pub top: Vec<RawBody>,
    pub style: Style,
}

fn raw_body_leaf() -> impl Strategy<Value = RawBody> {
    prop_oneof![3 => any::<u8>().prop_map(RawBody::Marker), 2 => any::<u8>().prop_map(RawBody::Poison)]
}

pub fn raw_cond() -> impl Strategy<Value = RawCond> {
    let leaf = (proptest::collection::vec((any::<bool>(), any::<u8>(), proptest::collection::vec(raw_body_leaf(), 0..3)), 1..4), proptest::option::of(proptest::collection::vec(raw_body_leaf(), 0..3)))
        .prop_map(|(arms, els)| RawCond { arms, els });
    leaf.prop_recursive(3, 24, 3, |inner| {
        let body = proptest::collection::vec(prop_oneof![3 => any::<u8>().prop_map(RawBody::Marker), 2 => any::<u8>().prop_map(RawBody::Poison), 2 => inner.prop_map(RawBody::Nested)], 0..4);
        (proptest::collection::vec((any::<bool>(), any::<u8>(), body.clone()), 1..5), proptest::option::of(body)).prop_map(|(arms, els)| RawCond { arms, els })
    })
}

pub fn raw_case() -> impl Strategy<Value = RawCase> {
    (proptest::collection::vec(prop_oneof![1 => any::<u8>().prop_map(RawBody::Marker), 3 => raw_cond().prop_map(RawBody::Nested)], 1..4), gen::style()).prop_map(|(top, style)| RawCase { top, style })
}

pub struct Builder {
    pub next: u32,
    /// symbols (equ / label) defined by selected markers: read back after the construct
    pub read_back: Vec<String>,
    /// symbols used after the construct that poison tries to redefine
    pub poison_count: usize,
    pub selected_markers: usize,
}

const EQU_VALUES: [i64; 4] = [5, 0, 300, -2];

/// A condition that parses but cannot be evaluated: only legal where the documentation says the
/// condition is never looked at (an arm after a taken one, anything inside an unselected branch).
fn unevaluable(style: u8) -> Cond {
    Cond::Expr(match style % 5 {
        0 => E::bin(BinOp::Gt, E::sym("undefined_sym_c08"), E::Num(3)),
        1 => E::bin(BinOp::Div, E::Num(1), E::Num(0)),
        2 => E::bin(BinOp::Rem, E::Num(10), E::sym("ce1")),
        3 => E::bin(BinOp::Shl, E::Num(1), E::Num(70)),
        _ => E::bin(BinOp::Mul, E::Num(i64::MAX), E::sym("ce0")),
    })
}

fn condition(truth: bool, style: u8, first: bool) -> Cond {
    let t = truth;
    // negative values are true as well
    match style % 32 {
        // large values whose low 8/16/32 bits are zero are true as well
        26 => return Cond::Expr(if t { E::Num(1 << 32) } else { E::bin(BinOp::Sub, E::Num(1 << 32), E::Num(1 << 32)) }),
        27 => return Cond::Expr(if t { E::bin(BinOp::Shl, E::Num(1), E::Num([8, 16, 32, 40, 62][style as usize / 32 % 5])) } else { E::bin(BinOp::Shr, E::Num(1), E::Num(1)) }),
        28 => return Cond::Expr(if t { E::bin(BinOp::And, E::sym("ce2"), E::Num(0x100)) } else { E::bin(BinOp::And, E::sym("ce2"), E::Num(0x200)) }),
        29 => return Cond::Expr(if t { E::num(-1) } else { E::Num(0) }),
        30 => return Cond::Expr(if t { E::sym("ce3") } else { E::sym("ce1") }),
        31 => return Cond::Expr(E::bin(BinOp::Sub, E::sym("ce0"), E::Num(if t { 9 } else { 5 }))),
        _ => {}
    }
    match style % if first { 9 } else { 7 } {
        0 => Cond::Expr(E::Num(if t { 1 } else { 0 })),
        1 => Cond::Expr(E::Num(if t { 7 } else { 0 })),
        2 => Cond::Expr(E::bin(BinOp::Eq, E::sym("ce0"), E::Num(if t { EQU_VALUES[0] } else { EQU_VALUES[0] + 1 }))),
        3 => Cond::Expr(E::bin(if t { BinOp::Gt } else { BinOp::Lt }, E::sym("ce2"), E::Num(100))),
        4 => Cond::Expr(E::un(UnOp::Not, E::Num(if t { 0 } else { 1 }))),
        5 => Cond::Expr(E::bin(BinOp::LAnd, E::sym("ce0"), if t { E::sym("ce2") } else { E::sym("ce1") })),
        6 => Cond::Expr(E::bin(BinOp::Ne, E::sym("ce3"), E::num(if t { 2 } else { -2 }))),
        7 => Cond::Ifdef(if t { "CD0".into() } else { "CD1".into() }),
        _ => Cond::Ifndef(if t { "CD1".into() } else { "CD0".into() }),
    }
}

impl Builder {
    fn marker(&mut self, kind: u8) -> Vec<Ln> {
        self.next += 1;
        let k = self.next;
        self.selected_markers += 1;
        match kind % 5 {
            0 | 1 => vec![Ln::st(St::Data(DKind::Dw, vec![DItem::Ex(E::Num(k as i64))]))],
            2 => vec![Ln::st(St::Msg(if kind & 8 == 0 { MsgKind::Message } else { MsgKind::Warning }, format!("marker {}", k)))],
            3 => {
                let n = format!("ceq_{}", k);
                self.read_back.push(n.clone());
                vec![Ln::st(St::Equ(n, E::Num(k as i64 + 1000)))]
            }
            _ => {
                let n = format!("clab_{}", k);
                self.read_back.push(n.clone());
                vec![Ln::with_label(&n, St::Ins("nop".into(), vec![]))]
            }
        }
    }

    fn poison(&mut self, kind: u8) -> Vec<Ln> {
        self.poison_count += 1;
        let raw = |s: &str| Ln::st(St::Raw(s.to_string()));
        match kind % 21 {
            // nested conditionals whose own condition is not valid: still a conditional, balanced
            16 => vec![raw(".if 1 +"), raw(".dw 0xdead"), raw(".endif")],
            17 => vec![raw(&format!(".if {}1{}", "(".repeat(200), ")".repeat(200))), raw(".dw 0xdead"), raw(".else"), raw(".dw 0xbeef"), raw(".endif")],
            18 => vec![raw(".ifdef"), raw(".dw 0xdead"), raw(".endif")],
            19 => vec![raw(".if @3 > (("), raw(".dw 0xdead"), raw(".elif ))"), raw(".dw 0xbeef"), raw(".endif")],
            20 => vec![raw(".ifndef 5 5"), raw(".error \"poison\""), raw(".endif")],
            0 => vec![raw("this is not assembly (( at all")],
            1 => vec![raw(".error \"poison\"")],
            2 => vec![raw(".message \"poison message\"")],
            3 => vec![raw("undefined_macro_42 r1, 5")],
            4 => vec![raw("ldi r16, 999")],
            5 => vec![raw("ldi r1, 1")],
            6 => vec![raw("after_all: nop")],  // duplicate of a label defined after the construct
            7 => vec![raw(".equ ce0 = 999")],   // redefinition of a symbol used later
            8 => vec![raw(".device ATmega8")],
            9 => vec![raw(".include \"no_such_file_c08.inc\"")],
            10 => vec![raw(".if undefined_symbol_77 > 3"), raw("nop"), raw(".else"), raw("brne nowhere"), raw(".endif")],
            11 => vec![raw(".ifdef CD0"), raw(".dw 0xdead"), raw(".elif 1"), raw(".dw 0xbeef"), raw(".endif")],
            12 => vec![raw(".macro poison_macro"), raw(".dw 0xdead"), raw(".endm")],
            13 => vec![raw(".exit")],
            14 => vec![raw(".define CD1")],
            _ => vec![raw(".dw 0xdead, \"string in word\""), raw(".org 0x7000"), raw("rjmp pc+5000")],
        }
    }

    fn body(&mut self, items: &[RawBody], selected: bool, depth: usize) -> Vec<Ln> {
        let mut out = vec![];
        for it in items {
            match it {
                RawBody::Marker(k) => {
                    if selected {
                        out.extend(self.marker(*k));
                    } else {
                        // an unselected marker is itself mild poison: its data must not appear
                        out.push(Ln::st(St::Raw(format!(".dw {}", 0xd000 + (*k as u32)))));
                    }
                }
                RawBody::Poison(k) => {
                    if selected {
                        out.extend(self.marker(*k));
                    } else {
                        out.extend(self.poison(*k));
                    }
                }
                RawBody::Nested(c) => out.push(self.cond(c, selected, depth + 1)),
            }
        }
        out
    }

    pub fn cond(&mut self, c: &RawCond, selected: bool, depth: usize) -> Ln {
        let mut taken = false;
        let mut arms = vec![];
        for (i, (truth, style, body)) in c.arms.iter().enumerate() {
            // conditions in unselected regions are still well-formed (unevaluable ones come as poison)
            let never_evaluated = !selected || taken;
            let cnd = if never_evaluated && *style % 3 == 0 { unevaluable(*style / 3) } else { condition(*truth, *style, i == 0) };
            let sel = selected && !taken && *truth;
            if sel {
                taken = true;
            }
            arms.push((cnd, self.body(body, sel, depth)));
        }
        let els = c.els.as_ref().map(|b| self.body(b, selected && !taken, depth));
        Ln::st(St::If(arms, els))
    }
}

pub fn build(c: &RawCase) -> (Vec<Ln>, Builder) {
    let mut b = Builder { next: 0, read_back: vec![], poison_count: 0, selected_markers: 0 };
    let mut prog = vec![];
    for (i, v) in EQU_VALUES.iter().enumerate() {
        prog.push(Ln::st(St::Equ(format!("ce{}", i), E::num(*v))));
    }
    prog.push(Ln::st(St::Define("CD0".into())));
    // every third program defines a macro in front of the constructs and calls it behind them (and in
    // between): whatever unselected text contains — macro definitions too — the macro stays what it was
    let with_macro = c.top.len() == 2;
    if with_macro {
        prog.push(Ln::st(St::MacroDef("c08_pre".into(), vec![Ln::st(St::Data(DKind::Dw, vec![DItem::Ex(E::Num(0x0c08))])), Ln::st(St::Ins("nop".into(), vec![]))])));
        let first = b.body(&c.top[..1], true, 0);
        prog.extend(first);
        prog.push(Ln::st(St::Call("C08_Pre".into(), vec![])));
        let rest = b.body(&c.top[1..], true, 0);
        prog.extend(rest);
        prog.push(Ln::st(St::Call("c08_pre".into(), vec![])));
    } else {
        prog.extend(b.body(&c.top, true, 0));
    }
    prog.push(Ln::with_label("after_all", St::Data(DKind::Dw, vec![DItem::Ex(E::sym("ce0")), DItem::Ex(E::Num(0xa5a5))])));
    for chunk in b.read_back.clone().chunks(4) {
        prog.push(Ln::st(St::Data(DKind::Dw, chunk.iter().map(|n| DItem::Ex(E::sym(n))).collect())));
    }
    // the flags must still be what the prelude says
    prog.push(Ln::st(St::If(vec![(Cond::Ifdef("CD1".into()), vec![Ln::st(St::Data(DKind::Dw, vec![DItem::Ex(E::Num(0xbad1))]))])], Some(vec![Ln::st(St::Data(DKind::Dw, vec![DItem::Ex(E::Num(0x600d))]))]))));
    (prog, b)
}

pub fn test(c: &RawCase, ev: &mut Ev, opts: &ModelOpts) -> Result<(), Violation> {
    ev.eval();
    let (prog, b) = build(c);
    let r = render(&prog, c.style);
    let (exp, stats) = model::assemble(&prog, opts);
    let nt = stats.elif_after_taken || stats.elif_count >= 2 || stats.nested_in_taken_then_else;
    if nt {
        ev.nt(fp(&r.text));
    }
    if stats.elif_after_taken {
        ev.class("elif-after-taken-arm");
    }
    if stats.elif_count >= 2 {
        ev.class("two-or-more-elif");
    }
    if stats.nested_in_taken_then_else {
        ev.class("nested-in-taken-arm-followed-by-else-or-elif");
    }
    if b.poison_count > 0 {
        ev.class("poison-in-unselected-branch");
    }
    if stats.selected_else > 0 {
        ev.class("else-selected");
    }
    let img = match exp {
        Expect::Ok(img) => img,
        other => {
            // the builder only puts valid lines into selected regions: the model must agree
            ev.discarded += 1;
            ev.class(&format!("harness-inconsistent:{:?}", other).chars().take(120).collect::<String>());
            return Ok(());
        }
    };
    if ev.samples.len() < 2 {
        ev.samples.push(json!({"program": r.text, "expected_code": crate::run::hex(&img.code, 64), "expected_messages": img.messages.iter().map(|m| m.1.clone()).collect::<Vec<_>>()}));
    }
    // (1) direct: image, messages with their own line numbers, default sizes
    let msgs: Vec<String> = img.messages.iter().map(|(k, t, id)| format!("{}: {} in line: {}", k.prefix(), t, r.line_of[*id])).collect();
    let direct = Check::Image { src: r.text.clone(), code: Some(img.code.clone()), eeprom: Some(img.eeprom.clone()), ram_filling: Some(img.ram_filling), sizes: Some(img.sizes), messages: Some(msgs) };
    let sig_tail = if stats.elif_after_taken { "elif-after-taken" } else if stats.conds > 0 { "chain" } else { "plain" };
    direct.eval().map_err(|why| Violation { sig: format!("c08:direct:{}:{}", sig_tail, kind_of(&why)), what: why, replay: direct.to_json() })?;
    // (2) metamorphic: unselected lines blanked / deleted
    for (mode, name) in [(ResolveMode::Blank, "blanked"), (ResolveMode::Delete, "deleted")] {
        match model::resolve_conditionals(&prog, mode) {
            Ok(p2) => {
                let t2 = render(&p2, Style::CANON).text;
                let chk = Check::Same { a: r.text.clone(), b: t2, messages: true, allow_both_fail: false };
                chk.eval().map_err(|why| Violation { sig: format!("c08:{}:{}:{}", name, sig_tail, kind_of(&why)), what: why, replay: chk.to_json() })?;
            }
            Err(_) => {
                ev.discarded += 1;
            }
        }
    }
    // (3) every fourth program: everything after the prelude as the body of a macro that is called once
    // with one argument; lines of unselected branches may use parameters the call does not pass
    if ev.evaluations % 4 == 1 {
        let canon = render(&prog, Style::CANON).text;
        if !canon.contains(".macro") {
            let lines: Vec<&str> = canon.lines().collect();
            if let Some(split) = lines.iter().position(|l| l.trim_start().starts_with(".define CD0")) {
                let mut w = String::new();
                for l in &lines[..=split] {
                    w.push_str(l);
                    w.push('\n');
                }
                w.push_str(".macro c08_wrap\n");
                for l in &lines[split + 1..] {
                    if l.contains("this is not assembly") {
                        w.push_str("ldi r16, @7 ; a parameter the call does not pass\n");
                    } else if l.contains("undefined_macro_42") {
                        w.push_str(".dw @0, @3\n");
                    } else {
                        w.push_str(l);
                        w.push('\n');
                    }
                }
                w.push_str(".endm\nC08_Wrap 1\n");
                ev.class("construct-inside-a-macro-body");
                let chk = Check::Same { a: canon.clone(), b: w, messages: true, allow_both_fail: false };
                chk.eval().map_err(|why| Violation { sig: format!("c08:in-macro-body:{}:{}", sig_tail, kind_of(&why)), what: why, replay: chk.to_json() })?;
            }
        }
    }
    // (4) every fourth program: labels in front of some of the conditional directives (of selected and of
    // unselected constructs alike) — a label on such a line does not change what the line opens or closes
    if ev.evaluations % 4 == 3 {
        let canon = render(&prog, Style::CANON).text;
        let mut w = String::new();
        let mut n = 0u32;
        for (i, l) in canon.lines().enumerate() {
            let t = l.trim_start();
            let is_cond = [".if", ".elif", ".else", ".endif"].iter().any(|k| t.starts_with(k));
            // about half of them, decided by the line's position and the program's own size
            if is_cond && (i * 7 + canon.len()) % 9 < 5 && t == l {
                w.push_str(&format!("c8l_{}: {}\n", i, l));
                n += 1;
            } else {
                w.push_str(l);
                w.push('\n');
            }
        }
        if n > 0 {
            ev.class("labels-on-conditional-directives");
            let chk = Check::Same { a: canon.clone(), b: w, messages: true, allow_both_fail: false };
            chk.eval().map_err(|why| Violation { sig: format!("c08:labelled-directives:{}:{}", sig_tail, kind_of(&why)), what: why, replay: chk.to_json() })?;
        }
    }
    Ok(())
}

fn kind_of(why: &str) -> &'static str {
    if why.contains("anic") {
        "panic"
    } else if why.contains("Err(") {
        "rejected"
    } else if why.contains("message") {
        "messages"
    } else {
        "image"
    }
}

/// All chain shapes with ≤3 arms × all truth assignments × optional else, with a nested chain
/// (1–2 arms, optional else, all truth assignments) in each arm position or none.
pub fn deterministic() -> Vec<RawCase> {
    let mut out = vec![];
    let mut nested_variants: Vec<Option<RawCond>> = vec![None];
    for n in 1..=2usize {
        for mask in 0..(1u32 << n) {
            for els in [false, true] {
                nested_variants.push(Some(RawCond {
                    arms: (0..n).map(|i| ((mask >> i) & 1 == 1, (i * 2 + mask as usize) as u8, vec![RawBody::Marker(i as u8), RawBody::Poison((mask as u8).wrapping_mul(3).wrapping_add(i as u8))])).collect(),
                    els: if els { Some(vec![RawBody::Marker(9), RawBody::Poison(mask as u8 + 5)]) } else { None },
                }));
            }
        }
    }
    let mut vi = 0usize;
    for n in 1..=3usize {
        for mask in 0..(1u32 << n) {
            for els in [false, true] {
                for nest_pos in 0..=(n + 1) {
                    // nest_pos == n+1: no nesting; n: nested in else
                    if nest_pos == n && !els {
                        continue;
                    }
                    let count = if nest_pos == n + 1 { 1 } else { 4 };
                    for _ in 0..count {
                        let nested = if nest_pos == n + 1 {
                            None
                        } else {
                            vi += 1;
                            nested_variants[1 + vi % (nested_variants.len() - 1)].clone()
                        };
                        let mk_body = |pos: usize, tag: u8| -> Vec<RawBody> {
                            let mut b = vec![RawBody::Marker(tag), RawBody::Poison(tag.wrapping_mul(7).wrapping_add(mask as u8))];
                            if pos == nest_pos {
                                if let Some(nc) = &nested {
                                    b.insert(1, RawBody::Nested(nc.clone()));
                                }
                            }
                            b.push(RawBody::Marker(tag.wrapping_add(2)));
                            b
                        };
                        let arms = (0..n).map(|i| ((mask >> i) & 1 == 1, (i as u8).wrapping_mul(5).wrapping_add(mask as u8).wrapping_add(vi as u8), mk_body(i, i as u8))).collect();
                        let e = if els { Some(mk_body(n, 4)) } else { None };
                        out.push(RawCase { top: vec![RawBody::Marker(1), RawBody::Nested(RawCond { arms, els: e }), RawBody::Marker(3)], style: Style::CANON });
                    }
                }
            }
        }
    }
    out
}

/// Constructs far deeper and longer than any generated tree (nesting 10..1000, thorough 5000; chains of
/// 10..1000 `.elif` arms), sizes on both sides of 2^8; the selected lines are known by construction.
pub fn scale_programs(thorough: bool) -> Vec<(String, String, Vec<u16>)> {
    let mut v = vec![];
    let mut depths = vec![10usize, 70, 130, 255, 256, 257, 300, 1000];
    if thorough {
        depths.push(5000);
    }
    for &d in &depths {
        // taken all the way down, an unselected .else on every level
        let src: String = (0..d).map(|i| format!(".if 1\n.dw {}\n", i)).collect::<String>() + &".else\n.dw 0xdead\n.endif\n".repeat(d) + ".dw 0xe0d\n";
        v.push((format!("taken-nest-{}", d), src, (0..d as u16).chain([0xe0d]).collect()));
        // .else selected on every level
        let src: String = ".if 0\n.dw 0xdead\n.else\n".repeat(d) + ".dw 7\n" + &".endif\n".repeat(d) + ".dw 0xe0d\n";
        v.push((format!("else-nest-{}", d), src, vec![7, 0xe0d]));
        // a nest of that depth inside an unselected branch: the skipping must find the right .else
        let src: String = ".if 0\n".to_string() + &(0..d).map(|i| [".if 1\n.dw 0xdead\n", ".ifdef NOPE\n.else\n", ".ifndef NOPE\n.dw 0xdead\n"][i % 3]).collect::<String>() + &".endif\n".repeat(d) + ".else\n.dw 9\n.endif\n.dw 0xe0d\n";
        v.push((format!("skipped-nest-{}", d), src, vec![9, 0xe0d]));
        // a nest of that depth behind the arm that was taken: none of its .else / .elif lines may be chosen
        let src: String = ".if 1\n.dw 5\n.else\n".to_string() + &(0..d).map(|i| [".if 1\n.dw 0xdead\n.else\n.dw 0xdead\n", ".if 0\n.elif 1\n.dw 0xdead\n"][i % 2]).collect::<String>() + &".endif\n".repeat(d) + ".endif\n.dw 0xe0d\n";
        v.push((format!("nest-behind-taken-arm-{}", d), src, vec![5, 0xe0d]));
    }
    for &n in &[10usize, 100, 255, 256, 257, 1000] {
        for k in [Some(0usize), Some(n / 2), Some(n - 1), None] {
            let kv: i64 = k.map(|x| x as i64).unwrap_or(-2);
            let src = format!(".equ c08_k = {}\n.if c08_k == -1\n.dw 0xdead\n", kv) + &(0..n).map(|i| format!(".elif c08_k == {}\n.dw {}\n", i, i + 1)).collect::<String>() + ".else\n.dw 0xe15e\n.endif\n.dw 0xe0d\n";
            v.push((format!("chain-of-{}-arm-{:?}", n, k), src, vec![k.map(|x| x as u16 + 1).unwrap_or(0xe15e), 0xe0d]));
        }
    }
    v
}

fn scale_leg(total: &mut Ev, thorough: bool) {
    use rayon::prelude::*;
    let results: Vec<(String, String, Result<(), String>, serde_json::Value)> = scale_programs(thorough)
        .into_par_iter()
        .map(|(tag, src, words)| {
            let code: Vec<u8> = words.iter().flat_map(|w| w.to_le_bytes()).collect();
            let chk = Check::Image { src: src.clone(), code: Some(code), eeprom: Some(vec![]), ram_filling: None, sizes: None, messages: Some(vec![]) };
            let r = chk.eval();
            (tag, src, r, chk.to_json())
        })
        .collect();
    for (tag, src, r, replay) in results {
        total.eval();
        total.class("construct-deeper-or-longer-than-255");
        total.nt(fp(&src));
        if let Err(why) = r {
            total.violation(Violation { sig: format!("c08:scale:{}:{}", tag.rsplitn(2, '-').last().unwrap_or("shape").trim_end_matches(char::is_numeric).trim_end_matches("-of"), kind_of(&why)), what: format!("[{}] {}", tag, crate::run::truncate(&why, 300)), replay });
        }
    }
}

pub fn run(ctx: &Ctx) -> Result<Ev, String> {
    let opts = ModelOpts { devices: model::model_devices() };
    let mut total = Ev::new("C08");
    scale_leg(&mut total, ctx.thorough);
    let det = deterministic();
    for c in &det {
        if let Err(v) = test(c, &mut total, &opts) {
            total.violation(v);
        }
    }
    total.class_n("deterministic-chain-shapes", det.len() as u64);
    let shards = 32usize;
    let per = (if ctx.thorough { 1_500_000 } else { 100_000 } / shards) as u32;
    let seed = ctx.seed;
    let ev = par::run_shards("C08", shards, |s| par::prop_shard("C08", seed, s, per, &raw_case(), |c, ev| test(c, ev, &opts)));
    total.merge(ev);
    if let Some((k, n)) = total.classes.iter().find(|(k, _)| k.starts_with("harness-inconsistent")) {
        return Err(format!("C08 builder and model disagree in {} cases: {}", n, k));
    }
    for required in ["elif-after-taken-arm", "two-or-more-elif", "nested-in-taken-arm-followed-by-else-or-elif", "poison-in-unselected-branch", "else-selected"] {
        if !total.has_violation() && total.classes.get(required).copied().unwrap_or(0) == 0 {
            return Err(format!("generator degenerate: class {} never produced", required));
        }
    }
    Ok(total)
}

pub fn rule() -> String {
    "conditional trees (every fourth one also with everything after the prelude as the body of a macro called once, unselected lines using parameters the call does not pass; every fourth one also with labels in front of about half of its conditional directives): chains of 1–4 arms (+ optional .else), nested to depth 3, conditions on literals, .equ constants (comparisons, !, &&) and .ifdef/.ifndef of .define flags under a generated truth assignment (incl. several true arms); selected bodies hold unique markers (.dw k, .message/.warning, .equ and label definitions read back after the construct); unselected bodies hold poison (unparsable text, .error, .message, undefined macro, out-of-range operands, duplicate label, redefinition of a symbol used later, .device, missing .include, balanced nested conditionals with unevaluable conditions, .macro/.endm, .exit, .define). Deterministic part: every chain shape with ≤3 arms × every truth assignment × optional .else × a nested chain in each position. Oracles: reference model (image, messages with line numbers, sizes) and metamorphic equality with the unselected lines blanked and deleted. Non-trivial = an .elif after a taken arm, or ≥2 .elif, or a nested conditional inside a taken arm followed by .else/.elif; distinct = distinct program text".into()
}
