//! C11 — including a file is the same as pasting it, and files are found where documented.
//!
//! A flat program (chunks with symbols, macros, flags, device selection, messages crossing chunk
//! boundaries in both directions) is split into a generated tree of files; every file lives in
//! exactly one directory reachable by exactly one of the documented rules.  Oracle:
//! build_file(tree) == build_str(flat text) == reference model, message line numbers per file.

use crate::ast::*;
use crate::evidence::{fp, Ev, Violation};
use crate::model::{self, Expect, ModelOpts};
use crate::oracle::strip_line;
use crate::par;
use crate::render::{render, Style};
use crate::run::{build, build_file, scratch_dir, Outcome};
use crate::Ctx;
use proptest::prelude::*;
use serde_json::{json, Value};
use std::collections::{BTreeMap, BTreeSet};
use std::path::{Path, PathBuf};

#[derive(Clone, Debug)]
pub enum RawTok {
    Chunk(u8, u8),
    /// placement, where the .includepath goes, exit at end
    Open(u8, u8, bool),
    Close,
    /// `.exit` in the middle of the current file: the rest of *this* file is dead text
    Exit,
}

#[derive(Clone, Debug)]
pub struct RawTree {
    pub toks: Vec<RawTok>,
    pub missing: Option<u8>,
    pub main_exit: bool,
    /// the main file is given through a symbolic link that sits in main/ and points elsewhere
    pub main_symlink: bool,
}

pub fn raw_tree() -> impl Strategy<Value = RawTree> {
    let tok = prop_oneof![
        6 => (any::<u8>(), any::<u8>()).prop_map(|(a, b)| RawTok::Chunk(a, b)),
        3 => (0u8..7, 0u8..3, proptest::bool::weighted(0.2)).prop_map(|(p, w, e)| RawTok::Open(p, w, e)),
        2 => Just(RawTok::Close),
        1 => Just(RawTok::Exit),
    ];
    (proptest::collection::vec(tok, 3..40), proptest::option::weighted(0.1, any::<u8>()), proptest::bool::weighted(0.15), proptest::bool::weighted(0.2)).prop_map(|(toks, missing, main_exit, main_symlink)| RawTree { toks, missing, main_exit, main_symlink })
}

pub const P_ABS: u8 = 0;
pub const P_REL_CWD: u8 = 1;
pub const P_INCLUDER_DIR: u8 = 2;
pub const P_INCLUDER_SUBDIR: u8 = 3;
pub const P_CALLER_DIR: u8 = 4;
pub const P_INCLUDEPATH_ABS: u8 = 5;
pub const P_INCLUDEPATH_REL: u8 = 6;

pub struct FileOut {
    /// path relative to the case root
    pub rel: PathBuf,
    pub text: String,
    pub depth: usize,
    pub open: bool,
    pub exit: bool,
    pub children_closed: Vec<usize>,
    /// an `.exit` has been written in the middle of this file
    pub exited: bool,
}

#[derive(Default, Debug)]
pub struct Shape {
    pub max_depth: usize,
    pub includepath_relative_in_nested: bool,
    pub includepath_in_sibling: bool,
    pub includepath_inherited: bool,
    pub exit_present: bool,
    pub exit_mid_file: bool,
    pub files: usize,
    pub placements: BTreeSet<u8>,
    pub crossing_both_directions: bool,
    pub missing: bool,
}

pub struct Tree {
    pub files: Vec<FileOut>,
    pub flat: Vec<Ln>,
    /// (message text, file index, line in that file), in flattened order
    pub messages: Vec<(String, usize, usize)>,
    pub shape: Shape,
    pub caller_dirs: Vec<PathBuf>,
    pub missing_name: Option<String>,
    pub main_symlink: bool,
}

fn rel_between(from_dir: &Path, to: &Path) -> String {
    // both are relative to the case root
    let f: Vec<_> = from_dir.components().collect();
    let t: Vec<_> = to.components().collect();
    let mut i = 0;
    while i < f.len() && i < t.len() && f[i] == t[i] {
        i += 1;
    }
    let mut parts: Vec<String> = vec![];
    for _ in i..f.len() {
        parts.push("..".into());
    }
    for c in &t[i..] {
        parts.push(c.as_os_str().to_string_lossy().to_string());
    }
    if parts.is_empty() {
        ".".into()
    } else {
        parts.join("/")
    }
}

const POISON: &[&str] = &["this line is not assembly ((", ".error \"after exit\"", ".dw 0xdead", "undefined_macro_after_exit r1", ".include \"nowhere_after_exit.inc\""];

pub fn build_tree(r: &RawTree, root_abs: &Path) -> Tree {
    let mut shape = Shape::default();
    let mut files: Vec<FileOut> = vec![FileOut { rel: PathBuf::from("main/main.asm"), text: String::new(), depth: 0, open: true, exit: r.main_exit, children_closed: vec![], exited: false }];
    let mut stack: Vec<usize> = vec![0];
    let mut flat: Vec<Ln> = vec![];
    let mut messages = vec![];
    let mut chunk_no = 0usize;
    let mut ip_no = 0usize;
    // definitions and uses cross chunk (and therefore file) boundaries:
    // chunk k may define label/equ/macro/flag number k; uses refer to numbers chosen from `a`
    let mut defined_labels: Vec<(usize, usize)> = vec![]; // (number, file)
    let mut defined_equs: Vec<(usize, usize)> = vec![];
    let mut defined_macros: Vec<(usize, usize)> = vec![];
    let mut pending_uses: Vec<(u8, usize, usize, usize)> = vec![]; // (kind, number, file of use, chunk position)
    let mut device_done = false;
    let mut declared: Vec<(PathBuf, usize)> = vec![];
    let cwd = std::env::current_dir().unwrap_or_else(|_| PathBuf::from("/"));
    let line_of = |text: &str| text.matches('\n').count() + 1;
    let total_chunks = r.toks.iter().filter(|t| matches!(t, RawTok::Chunk(..))).count().max(1);
    let mut missing_name = None;
    let missing_at = r.missing.map(|m| m as usize % total_chunks);
    for tok in &r.toks {
        let cur = *stack.last().unwrap();
        if files[cur].exited {
            // dead text after a mid-file .exit: it must have no effect whatever it is
            match tok {
                RawTok::Chunk(t, _) => {
                    let dead = ["this is not assembly ((", ".dw 0xdead", ".error \"dead text\"", "lab_dead: nop", ".include \"nowhere_dead.inc\"", ".equ eq_dead = 1", ".device ATmega8", ".define FL_0"];
                    files[cur].text.push_str(dead[*t as usize % dead.len()]);
                    files[cur].text.push('\n');
                }
                RawTok::Close => {
                    if stack.len() > 1 {
                        let idx = stack.pop().unwrap();
                        files[idx].open = false;
                        let parent = *stack.last().unwrap();
                        files[parent].children_closed.push(idx);
                    }
                }
                _ => {}
            }
            continue;
        }
        match tok {
            RawTok::Exit => {
                if cur != 0 || r.main_exit {
                    files[cur].text.push_str(".exit\n");
                    files[cur].exited = true;
                    shape.exit_present = true;
                    shape.exit_mid_file = true;
                }
            }
            RawTok::Chunk(t, a) => {
                let k = chunk_no;
                chunk_no += 1;
                if Some(k) == missing_at {
                    let name = format!("missing_file_{}.inc", k);
                    files[cur].text.push_str(&format!(".include \"{}\"\n", name));
                    missing_name = Some(name);
                    shape.missing = true;
                }
                let mut lines: Vec<Ln> = vec![];
                match t % 12 {
                    0 => lines.push(Ln::st(St::Data(DKind::Dw, vec![DItem::Ex(E::Num(0x1000 + k as i64))]))),
                    // the location counter as an operand: it is the address of this very item, wherever the
                    // neighbouring lines come from (the last line of one file and the next line of another
                    // often carry the same line number)
                    1 if a % 2 == 0 => lines.push(Ln::st(St::Ins("rjmp".into(), vec![Opnd::Ex(E::Pc)]))),
                    1 => lines.push(Ln::st(St::Data(DKind::Dw, vec![DItem::Ex(E::Pc), DItem::Ex(E::Num(0x1000 + k as i64))]))),
                    2 => {
                        lines.push(Ln::with_label(&format!("lab_{}", k), St::Ins("nop".into(), vec![])));
                        defined_labels.push((k, cur));
                    }
                    3 => {
                        lines.push(Ln::st(St::Equ(format!("eq_{}", k), E::Num(k as i64 * 3 + 7))));
                        defined_equs.push((k, cur));
                    }
                    4 => {
                        lines.push(Ln::st(St::MacroDef(
                            format!("mac_{}", k),
                            vec![Ln::st(St::Data(DKind::Dw, vec![DItem::Ex(E::Arg(0)), DItem::Ex(E::Num(0x7000 + k as i64))])), Ln::st(St::Ins("mov".into(), vec![Opnd::Arg(1), Opnd::Reg(1)]))],
                        )));
                        defined_macros.push((k, cur));
                    }
                    5 => pending_uses.push((0, *a as usize, cur, flat.len())),
                    6 => pending_uses.push((1, *a as usize, cur, flat.len())),
                    7 => pending_uses.push((2, *a as usize, cur, flat.len())),
                    8 => {
                        if !device_done && cur != 0 {
                            device_done = true;
                            lines.push(Ln::st(St::Device(["ATmega48", "ATmega8", "ATtiny13", "ATmega2560"][*a as usize % 4].to_string())));
                        } else {
                            lines.push(Ln::st(St::Ins("nop".into(), vec![])));
                        }
                    }
                    9 => {
                        let f = format!("FL_{}", a % 4);
                        if a & 4 == 0 {
                            lines.push(Ln::st(St::Define(f)));
                        } else {
                            lines.push(Ln::st(St::If(
                                vec![(Cond::Ifdef(f), vec![Ln::st(St::Data(DKind::Dw, vec![DItem::Ex(E::Num(0xd1f0 + k as i64 % 16))]))])],
                                Some(vec![Ln::st(St::Data(DKind::Dw, vec![DItem::Ex(E::Num(0x0e15))]))]),
                            )));
                        }
                    }
                    10 => {
                        let text = format!("msg {}", k);
                        messages.push((text.clone(), cur, line_of(&files[cur].text)));
                        lines.push(Ln::st(St::Msg(if a & 1 == 0 { MsgKind::Message } else { MsgKind::Warning }, text)));
                    }
                    _ => {
                        lines.push(Ln::st(St::Seg(Seg::Data)));
                        lines.push(Ln::with_label(&format!("dat_{}", k), St::Byte(E::Num(1 + (*a % 3) as i64))));
                        lines.push(Ln::st(St::Seg(Seg::Code)));
                        lines.push(Ln::st(St::Data(DKind::Dw, vec![DItem::Ex(E::Sym(format!("dat_{}", k)))])));
                    }
                }
                // uses are resolved at the end (they may refer to later definitions); reserve their place
                if matches!(t % 12, 5 | 6 | 7) {
                    let marker = format!("\u{1}USE{}\n", pending_uses.len() - 1);
                    files[cur].text.push_str(&marker);
                    flat.push(Ln::st(St::Raw(marker)));
                } else {
                    files[cur].text.push_str(&render(&lines, Style::CANON).text);
                    flat.extend(lines);
                }
            }
            RawTok::Open(p, w, exit) => {
                if files.len() >= 8 || stack.len() > 4 {
                    continue;
                }
                let idx = files.len();
                let name = format!("f{}.inc", idx);
                let parent_dir = files[cur].rel.parent().unwrap().to_path_buf();
                let mut placement = *p;
                let mut pre_lines = String::new();
                let (rel, directive_arg): (PathBuf, String) = match placement {
                    P_ABS => {
                        let rel = PathBuf::from("abs").join(&name);
                        (rel.clone(), root_abs.join(&rel).to_string_lossy().to_string())
                    }
                    P_REL_CWD => {
                        let rel = PathBuf::from("relcwd").join(&name);
                        match root_abs.join(&rel).strip_prefix(&cwd) {
                            Ok(r2) => (rel.clone(), r2.to_string_lossy().to_string()),
                            Err(_) => {
                                placement = P_ABS;
                                (rel.clone(), root_abs.join(&rel).to_string_lossy().to_string())
                            }
                        }
                    }
                    P_INCLUDER_DIR => (parent_dir.join(&name), name.clone()),
                    P_INCLUDER_SUBDIR => (parent_dir.join("sub").join(&name), format!("sub/{}", name)),
                    P_CALLER_DIR => (PathBuf::from(format!("cd{}", idx % 2)).join(&name), name.clone()),
                    _ if *w % 3 == 1 && declared.iter().any(|(_, c)| stack.contains(c)) => {
                        // a directory declared earlier by an enclosing file (inherited downwards)
                        let cands: Vec<&(PathBuf, usize)> = declared.iter().filter(|(_, c)| stack.contains(c)).collect();
                        let (dir, carrier) = cands[idx % cands.len()].clone();
                        if carrier != cur {
                            shape.includepath_inherited = true;
                        }
                        (dir.join(&name), name.clone())
                    }
                    _ => {
                        ip_no += 1;
                        let dir = PathBuf::from(format!("ip_{}", ip_no));
                        declared.push((dir.clone(), cur));
                        // which file carries the .includepath directive
                        let carrier = match w % 3 {
                            2 => match files[cur].children_closed.last() {
                                Some(s) => {
                                    shape.includepath_in_sibling = true;
                                    *s
                                }
                                None => cur,
                            },
                            _ => cur,
                        };
                        let carrier_dir = files[carrier].rel.parent().unwrap().to_path_buf();
                        let arg = if placement == P_INCLUDEPATH_ABS { root_abs.join(&dir).to_string_lossy().to_string() } else { rel_between(&carrier_dir, &dir) };
                        if placement == P_INCLUDEPATH_REL && files[carrier].depth >= 1 {
                            shape.includepath_relative_in_nested = true;
                        }
                        let line = format!(".includepath \"{}\"\n", arg);
                        if carrier == cur {
                            pre_lines.push_str(&line);
                        } else if files[carrier].open {
                            // an open ancestor: the directive is appended at its current end, which precedes
                            // (in reading order) everything that follows in its descendants
                            // -> only correct if the carrier's current end has already been read: it has,
                            // because the carrier is suspended inside the include that leads to `cur`.
                            // Appending would place it *after* that include; so put it into `cur` instead.
                            pre_lines.push_str(&line.replace(&arg, &if placement == P_INCLUDEPATH_ABS { arg.clone() } else { rel_between(&parent_dir, &dir) }));
                        } else {
                            // closed sibling: its text is complete, but an .exit at its end must stay last
                            if files[carrier].exit || files[carrier].exited {
                                pre_lines.push_str(&line.replace(&arg, &if placement == P_INCLUDEPATH_ABS { arg.clone() } else { rel_between(&parent_dir, &dir) }));
                                shape.includepath_in_sibling = false;
                            } else {
                                files[carrier].text.push_str(&line);
                            }
                        }
                        (dir.join(&name), name.clone())
                    }
                };
                shape.placements.insert(placement);
                files[cur].text.push_str(&pre_lines);
                files[cur].text.push_str(&format!(".include \"{}\"\n", directive_arg));
                let depth = files[cur].depth + 1;
                shape.max_depth = shape.max_depth.max(depth);
                files.push(FileOut { rel, text: String::new(), depth, open: true, exit: *exit, children_closed: vec![], exited: false });
                stack.push(idx);
            }
            RawTok::Close => {
                if stack.len() > 1 {
                    let idx = stack.pop().unwrap();
                    files[idx].open = false;
                    let parent = *stack.last().unwrap();
                    files[parent].children_closed.push(idx);
                }
            }
        }
    }
    while stack.len() > 1 {
        let idx = stack.pop().unwrap();
        files[idx].open = false;
    }
    // resolve the uses now that all definitions are known
    let mut use_text: Vec<(String, Vec<Ln>)> = vec![];
    let mut dirs_seen: BTreeMap<usize, (bool, bool)> = BTreeMap::new(); // definition file -> (used from earlier file, used from later)
    for (kind, sel, use_file, _) in &pending_uses {
        let (lines, def_file): (Vec<Ln>, Option<usize>) = match kind {
            0 if !defined_labels.is_empty() => {
                let (n, f) = defined_labels[*sel % defined_labels.len()];
                (vec![Ln::st(St::Data(DKind::Dw, vec![DItem::Ex(E::Sym(format!("LAB_{}", n)))]))], Some(f))
            }
            1 if !defined_equs.is_empty() => {
                let (n, f) = defined_equs[*sel % defined_equs.len()];
                (vec![Ln::st(St::Ins("ldi".into(), vec![Opnd::Reg(16 + (n % 16) as u8), Opnd::Ex(E::Fn(Func::Low, Box::new(E::Sym(format!("eq_{}", n)))))]))], Some(f))
            }
            2 if !defined_macros.is_empty() => {
                let (n, f) = defined_macros[*sel % defined_macros.len()];
                (vec![Ln::st(St::Call(format!("MAC_{}", n), vec![Opnd::Ex(E::Num(*sel as i64)), Opnd::Reg(16 + (*sel % 16) as u8)]))], Some(f))
            }
            _ => (vec![Ln::st(St::Ins("nop".into(), vec![]))], None),
        };
        if let Some(df) = def_file {
            if df != *use_file {
                let e = dirs_seen.entry(df).or_insert((false, false));
                if *use_file < df {
                    e.0 = true;
                } else {
                    e.1 = true;
                }
            }
        }
        use_text.push((render(&lines, Style::CANON).text, lines));
    }
    shape.crossing_both_directions = dirs_seen.values().any(|(a, b)| *a && *b) || (dirs_seen.values().any(|(a, _)| *a) && dirs_seen.values().any(|(_, b)| *b));
    for (i, (t, _)) in use_text.iter().enumerate() {
        let marker = format!("\u{1}USE{}\n", i);
        for f in files.iter_mut() {
            if f.text.contains(&marker) {
                f.text = f.text.replace(&marker, t);
            }
        }
    }
    let mut flat2: Vec<Ln> = vec![];
    for l in flat {
        if let Some(St::Raw(m)) = &l.st {
            if let Some(rest) = m.strip_prefix("\u{1}USE") {
                let i: usize = rest.trim().parse().unwrap();
                flat2.extend(use_text[i].1.clone());
                continue;
            }
        }
        flat2.push(l);
    }
    // .exit + poison at the end of the files that asked for it
    for (i, f) in files.iter_mut().enumerate() {
        if f.exit && !f.exited {
            shape.exit_present = true;
            f.text.push_str(".exit\n");
            for k in 0..3 {
                f.text.push_str(POISON[(i + k) % POISON.len()]);
                f.text.push('\n');
            }
        }
    }
    shape.files = files.len();
    let caller_dirs = vec![root_abs.join("cd0"), root_abs.join("cd1")];
    Tree { files, flat: flat2, messages, shape, caller_dirs, missing_name, main_symlink: r.main_symlink }
}

/// The main file is named by its absolute path or — trees with an even number of files — relative to
/// the working directory (a function of the tree, so that a replay file reproduces it).
pub fn main_path_for(root: &Path, n_files: usize) -> PathBuf {
    let main_abs = root.join("main/main.asm");
    if n_files % 2 == 0 {
        if let Some(rel) = std::env::current_dir().ok().and_then(|cwd| main_abs.strip_prefix(&cwd).ok().map(|p| p.to_path_buf())) {
            return rel;
        }
    }
    main_abs
}

pub fn write_tree(t: &Tree, root: &Path) -> std::io::Result<()> {
    for d in ["main", "cd0", "cd1"] {
        std::fs::create_dir_all(root.join(d))?;
    }
    for (i, f) in t.files.iter().enumerate() {
        let p = root.join(&f.rel);
        if let Some(parent) = p.parent() {
            std::fs::create_dir_all(parent)?;
        }
        if i == 0 && t.main_symlink {
            // the text lives in store/, main/main.asm is a symbolic link to it: "the directory of the
            // including file" is where the name that was given lives
            std::fs::create_dir_all(root.join("store"))?;
            std::fs::write(root.join("store/real_main.asm"), &f.text)?;
            let _ = std::fs::remove_file(&p);
            std::os::unix::fs::symlink(root.join("store/real_main.asm"), &p)?;
        } else {
            std::fs::write(p, &f.text)?;
        }
    }
    Ok(())
}

fn tree_json(t: &Tree) -> Value {
    json!({
        "kind": "include_tree",
        "files": t.files.iter().map(|f| json!({"path": f.rel.to_string_lossy(), "text": f.text})).collect::<Vec<_>>(),
        "flat": render(&t.flat, Style::CANON).text,
        "messages": t.messages.iter().map(|(m, f, l)| json!({"text": m, "file": f, "line": l})).collect::<Vec<_>>(),
        "missing": t.missing_name,
        "note": "absolute paths inside the files refer to the scratch root of the run that found the case; `./check replay` rewrites them",
    })
}

/// Compare build_file(tree) with build_str(flat) and with the per-file message line numbers.
fn compare(tree_out: &Outcome, flat_out: &Outcome, msgs: &[(String, usize, usize)]) -> Result<(), (String, String)> {
    match (tree_out, flat_out) {
        (Outcome::Ok(a), Outcome::Ok(b)) => {
            if a.code != b.code {
                return Err(("code".into(), format!("code differs: tree {} vs pasted {}", crate::run::hex(&a.code, 40), crate::run::hex(&b.code, 40))));
            }
            if a.eeprom != b.eeprom {
                return Err(("eeprom".into(), "eeprom differs".into()));
            }
            if (a.flash_size, a.eeprom_size, a.ram_size, a.ram_filling) != (b.flash_size, b.eeprom_size, b.ram_size, b.ram_filling) {
                return Err(("sizes".into(), format!("sizes differ: tree ({},{},{},{}) pasted ({},{},{},{})", a.flash_size, a.eeprom_size, a.ram_size, a.ram_filling, b.flash_size, b.eeprom_size, b.ram_size, b.ram_filling)));
            }
            let ma: Vec<String> = a.messages.iter().map(|m| strip_line(m)).collect();
            let mb: Vec<String> = b.messages.iter().map(|m| strip_line(m)).collect();
            if ma != mb {
                return Err(("messages".into(), format!("message texts differ: tree {:?} pasted {:?}", ma, mb)));
            }
            if a.messages.len() == msgs.len() {
                for (got, (text, _, line)) in a.messages.iter().zip(msgs) {
                    if !got.contains(text.as_str()) || !crate::oracle::has_token(got, &line.to_string()) {
                        return Err(("message-line".into(), format!("message {:?} should carry text {:?} and its own file's line {}", got, text, line)));
                    }
                }
            } else {
                return Err(("messages".into(), format!("{} messages, generator wrote {}", a.messages.len(), msgs.len())));
            }
            Ok(())
        }
        (Outcome::Panic(p), _) => Err(("panic".into(), p.clone())),
        (a, b) => Err(("rejected".into(), format!("tree: {} pasted: {}", a.brief(), b.brief()))),
    }
}

pub fn replay(v: &Value) -> Option<Result<(), String>> {
    if v.get("kind")?.as_str()? == "spanning" {
        let tag = v.get("tag")?.as_str()?;
        let (_, files, pasted, _) = spanning_cases().into_iter().find(|c| c.0 == tag)?;
        let root = scratch_dir().join("c11-replay-span");
        let _ = std::fs::remove_dir_all(&root);
        std::fs::create_dir_all(&root).ok()?;
        for (n, t) in &files {
            std::fs::write(root.join(n), t).ok()?;
        }
        let r = compare(&build_file(root.join("main.asm"), BTreeSet::new()), &build(&pasted), &[]).map_err(|(k, why)| format!("{}: {}", k, why));
        let _ = std::fs::remove_dir_all(&root);
        return Some(r);
    }
    if v.get("kind")?.as_str()? == "large_file" {
        return Some(large_file_verdict(v.get("size")?.as_u64()? as usize, v.get("role")?.as_u64()? as u8, v.get("pad")?.as_u64()? as u8, "replay").map_err(|(k, why)| format!("{}: {}", k, why)));
    }
    if v.get("kind")?.as_str()? != "include_tree" {
        return None;
    }
    // re-materialise the tree under a fresh root; absolute paths are rewritten to it
    let root = scratch_dir().join("c11-replay");
    let _ = std::fs::remove_dir_all(&root);
    let files = v.get("files")?.as_array()?;
    let mut old_root: Option<String> = None;
    for f in files {
        let text = f.get("text")?.as_str()?;
        for line in text.lines() {
            if let Some(i) = line.find("/c11-") {
                if let Some(q) = line.find('"') {
                    if q < i {
                        let rest = &line[i + 1..];
                        let end = rest.find('/').unwrap_or(rest.len());
                        old_root = Some(line[q + 1..i + 1 + end].to_string());
                    }
                }
            }
        }
    }
    for d in ["main", "cd0", "cd1"] {
        std::fs::create_dir_all(root.join(d)).ok()?;
    }
    for f in files {
        let rel = f.get("path")?.as_str()?;
        let mut text = f.get("text")?.as_str()?.to_string();
        if let Some(o) = &old_root {
            text = text.replace(o.as_str(), &root.to_string_lossy());
        }
        let p = root.join(rel);
        std::fs::create_dir_all(p.parent()?).ok()?;
        std::fs::write(p, text).ok()?;
    }
    let mut paths = BTreeSet::new();
    paths.insert(root.join("cd0"));
    paths.insert(root.join("cd1"));
    let tree_out = build_file(main_path_for(&root, files.len()), paths);
    let res = if let Some(m) = v.get("missing").and_then(|m| m.as_str()) {
        match &tree_out {
            Outcome::Err(e) if e.contains(m) => Ok(()),
            o => Err(format!("missing include {}: {}", m, o.brief())),
        }
    } else {
        let flat_out = build(v.get("flat")?.as_str()?);
        let msgs: Vec<(String, usize, usize)> = v.get("messages")?.as_array()?.iter().filter_map(|m| Some((m.get("text")?.as_str()?.to_string(), m.get("file")?.as_u64()? as usize, m.get("line")?.as_u64()? as usize))).collect();
        compare(&tree_out, &flat_out, &msgs).map_err(|(k, e)| format!("{}: {}", k, e))
    };
    let _ = std::fs::remove_dir_all(&root);
    Some(res)
}

pub fn test(r: &RawTree, ev: &mut Ev, opts: &ModelOpts, tag: &str) -> Result<(), Violation> {
    ev.eval();
    let n = ev.evaluations;
    let root = scratch_dir().join(format!("c11-{}-{}", tag, n % 8));
    let _ = std::fs::remove_dir_all(&root);
    let t = build_tree(r, &root);
    if write_tree(&t, &root).is_err() {
        ev.discarded += 1;
        return Ok(());
    }
    let mut paths = BTreeSet::new();
    for d in &t.caller_dirs {
        paths.insert(d.clone());
    }
    let main_path = main_path_for(&root, t.files.len());
    if main_path.is_relative() {
        ev.class("main-file-given-by-a-relative-path");
    }
    let tree_out = build_file(main_path, paths);
    let flat_text = render(&t.flat, Style::CANON).text;
    let s = &t.shape;
    for p in &s.placements {
        ev.class(&format!("placement:{}", ["as-written-absolute", "as-written-relative-to-cwd", "includer-directory", "includer-subdirectory", "caller-supplied-directory", "includepath-absolute", "includepath-relative"][*p as usize]));
    }
    for (c, on) in [("depth>=2", s.max_depth >= 2), ("includepath-relative-to-nested-file", s.includepath_relative_in_nested), ("includepath-in-earlier-sibling", s.includepath_in_sibling), ("includepath-inherited-from-enclosing-file", s.includepath_inherited), ("exit-present", s.exit_present), ("exit-in-the-middle-of-a-file", s.exit_mid_file), ("main-file-given-through-a-symbolic-link", t.main_symlink), ("symbols-cross-boundaries-both-directions", s.crossing_both_directions)] {
        if on {
            ev.class(c);
        }
    }
    let nt = s.max_depth >= 2 || s.includepath_relative_in_nested || s.crossing_both_directions || s.exit_present;
    let result = if let Some(m) = &t.missing_name {
        ev.class("missing-include-must-fail");
        ev.nt(fp(&(&flat_text, m)));
        match &tree_out {
            Outcome::Err(e) if e.contains(m.as_str()) => Ok(()),
            Outcome::Err(e) => Err(Violation { sig: "c11:missing-include:not-named".into(), what: format!("error for a missing include does not name {}: {}", m, e), replay: tree_json(&t) }),
            o => Err(Violation { sig: format!("c11:missing-include:{}", o.kind()), what: format!("include of {} which exists nowhere: {}", m, o.brief()), replay: tree_json(&t) }),
        }
    } else {
        if nt {
            ev.nt(fp(&(t.files.iter().map(|f| (&f.rel, &f.text)).collect::<Vec<_>>())));
        }
        let (exp, _) = model::assemble(&t.flat, opts);
        let flat_out = build(&flat_text);
        match (&exp, &flat_out) {
            (Expect::Ok(img), Outcome::Ok(b)) if img.code == b.code && img.eeprom == b.eeprom => {
                if ev.samples.len() < 2 {
                    ev.samples.push(json!({"files": t.files.iter().map(|f| json!({"path": f.rel.to_string_lossy(), "text": f.text})).collect::<Vec<_>>(), "pasted": flat_text}));
                }
                let sig_class = if s.includepath_in_sibling { "includepath-in-sibling" } else if s.exit_present { "exit" } else { "tree" };
                compare(&tree_out, &flat_out, &t.messages).map_err(|(k, why)| Violation { sig: format!("c11:{}:{}", sig_class, k), what: why, replay: tree_json(&t) })
            }
            _ => {
                // the pasted program itself is not valid or disagrees with the model: not C11's subject
                ev.discarded += 1;
                ev.class("pasted-program-not-usable");
                Ok(())
            }
        }
    };
    let _ = std::fs::remove_dir_all(&root);
    result
}

/// Many sibling includes and a deep (but reasonable) chain: every include gives back what it took.
fn many_includes_leg(ev: &mut Ev) {
    for (siblings, depth) in [(10usize, 3usize), (70, 10), (200, 40), (1000, 60)] {
        ev.eval();
        ev.class("many-includes-leg");
        let root = scratch_dir().join(format!("c11-many-{}", siblings));
        let _ = std::fs::remove_dir_all(&root);
        let _ = std::fs::create_dir_all(root.join("inc"));
        let mut main = String::from(".includepath \"inc\"\n");
        let mut flat = String::new();
        for i in 0..siblings {
            main.push_str(&format!(".include \"s{}.inc\"\n", i));
            let body = format!("ms_{}: .dw {}\n", i, i);
            let _ = std::fs::write(root.join("inc").join(format!("s{}.inc", i)), &body);
            flat.push_str(&body);
        }
        main.push_str(".include \"d0.inc\"\n");
        for d in 0..depth {
            let mut body = format!("md_{}: .dw {}\n", d, 1000 + d);
            flat.push_str(&body);
            if d + 1 < depth {
                body.push_str(&format!(".include \"d{}.inc\"\n", d + 1));
            }
            let _ = std::fs::write(root.join("inc").join(format!("d{}.inc", d)), &body);
        }
        let tail = format!(".dw ms_{}, md_{}\n", siblings - 1, depth - 1);
        main.push_str(&tail);
        flat.push_str(&tail);
        let _ = std::fs::write(root.join("main.asm"), &main);
        ev.nt(fp(&(siblings, depth)));
        let tree_out = build_file(root.join("main.asm"), BTreeSet::new());
        let flat_out = build(&flat);
        if let Err((k, why)) = compare(&tree_out, &flat_out, &[]) {
            ev.violation(Violation { sig: format!("c11:many-includes:{}", k), what: format!("{} sibling includes and a chain of depth {}: {}", siblings, depth, why), replay: json!({"kind": "many_includes", "siblings": siblings, "depth": depth}) });
        }
        let _ = std::fs::remove_dir_all(&root);
    }
}

/// Constructs that are opened in one file and closed in another: pasting makes them whole.
/// (name, files [(name, text)] with main.asm first, pasted text, signature tail)
pub fn spanning_cases() -> Vec<(&'static str, Vec<(&'static str, String)>, String, &'static str)> {
    let mut v = vec![];
    let mut add = |tag: &'static str, main: &str, inc: &str, sig: &'static str| {
        // pasting puts the *lines* of the file in place of the directive: a last line without a line end is still a line
        let inc_lines = if inc.ends_with('\n') { inc.to_string() } else { format!("{}\n", inc) };
        let pasted = main.replace(".include \"part.inc\"\n", &inc_lines);
        v.push((tag, vec![("main.asm", main.to_string()), ("part.inc", inc.to_string())], pasted, sig));
    };
    // a taken branch spans the boundary: nothing is being skipped when the file ends
    add("taken-if-opened-in-the-included-file", ".dw 1\n.include \"part.inc\"\n.dw 3\n.endif\n.dw 4\n", ".if 1\n.dw 2\n", "conditional-crosses-end-of-file");
    add("taken-if-closed-in-the-included-file", ".if 1\n.dw 1\n.include \"part.inc\"\n.dw 4\n", ".dw 2\n.endif\n.dw 3\n", "conditional-crosses-end-of-file");
    // an untaken branch spans the boundary: skipping has to go on in the other file
    add("untaken-if-opened-in-the-included-file", ".dw 1\n.include \"part.inc\"\n.dw 3\n.endif\n.dw 4\n", ".if 0\n.dw 2\n", "conditional-skip-crosses-end-of-file");
    add("else-in-the-included-file", ".if 1\n.dw 1\n.include \"part.inc\"\n.dw 3\n.endif\n.dw 4\n", ".dw 2\n.else\n.dw 9\n", "conditional-skip-crosses-end-of-file");
    // (an .include line that itself stands in an unselected branch is never performed — C08 — so
    //  "closed in a file included from the skipped part" is not a case of this property)
    add("untaken-nested-ifs-opened-in-the-included-file", ".dw 1\n.include \"part.inc\"\n.dw 3\n.endif\n.dw 4\n.endif\n.dw 5\n", ".if 0\n.if 1\n.dw 2\n", "conditional-skip-crosses-end-of-file");
    add("untaken-if-opened-in-the-included-file-else-in-the-including-one", ".dw 1\n.include \"part.inc\"\n.dw 3\n.else\n.dw 4\n.endif\n.dw 5\n", ".if 0\n.dw 2\n", "conditional-skip-crosses-end-of-file");
    add("untaken-elif-chain-across-the-boundary", ".equ c11_k = 2\n.dw 1\n.include \"part.inc\"\n.dw 3\n.elif c11_k == 2\n.dw 4\n.else\n.dw 5\n.endif\n.dw 6\n", ".if c11_k == 1\n.dw 2\n", "conditional-skip-crosses-end-of-file");
    add("file-ends-right-after-endif", ".dw 1\n.include \"part.inc\"\n.dw 3\n", ".if 1\n.dw 2\n.else\n.dw 9\n.endif", "conditional-crosses-end-of-file");
    add("file-ends-right-after-endif-of-untaken", ".dw 1\n.include \"part.inc\"\n.dw 3\n", ".if 0\n.dw 2\n.endif", "conditional-crosses-end-of-file");
    // an .include that stands in a macro body is performed where the macro is called: the file is
    // looked for by the same rules (here: next to the including file)
    add("include-inside-a-macro-body", ".macro inc_m\n.include \"part.inc\"\n.endm\n.dw 1\ninc_m\n.dw 3\ninc_m\n", ".dw 2\n", "include-in-macro-body");
    add("macro-definition-closed-in-the-including-file", ".dw 1\n.include \"part.inc\"\n.dw 3\n.endm\nspan_m\n.dw 4\n", ".macro span_m\n.dw 2\n", "macro-definition-crosses-end-of-file");
    v
}

/// Two files of the same name in two directories, each included by its bare name from a file that
/// lives next to it: "the directory of the including file" decides, in whatever order the two
/// directories are visited and whatever their names are.
fn same_name_leg(ev: &mut Ev) {
    for (first, second) in [("zz", "aa"), ("aa", "zz"), ("m1", "m2"), ("m2", "m1")] {
        // (reaching the two user files by bare names through two .includepath directives would make both
        //  directories documented places for defs.inc; which one wins then is not stated, so only the
        //  variant in which the other directory is known for no documented reason is judged)
        for via_includepath in [false] {
            ev.eval();
            ev.class("same-file-name-in-two-directories");
            let root = scratch_dir().join(format!("c11-same-{}-{}-{}", first, second, via_includepath));
            let _ = std::fs::remove_dir_all(&root);
            for d in [first, second] {
                let _ = std::fs::create_dir_all(root.join(d));
            }
            let val = |d: &str| if d == first { 0x1111 } else { 0x2222 };
            for d in [first, second] {
                let _ = std::fs::write(root.join(d).join("defs.inc"), format!(".dw {}\n", val(d)));
                let _ = std::fs::write(root.join(d).join(format!("user_{}.inc", d)), ".include \"defs.inc\"\n");
            }
            // the two user files are reached by a path with the directory in it, or by a bare name
            // through an .includepath (relative to the main file) issued just before
            let inc = |d: &str| if via_includepath { format!(".includepath \"{}\"\n.include \"user_{}.inc\"\n", d, d) } else { format!(".include \"{}/user_{}.inc\"\n", d, d) };
            let main = format!(".dw 1\n{}.dw 2\n{}.dw 3\n", inc(first), inc(second));
            let _ = std::fs::write(root.join("main.asm"), &main);
            let pasted = format!(".dw 1\n.dw {}\n.dw 2\n.dw {}\n.dw 3\n", val(first), val(second));
            ev.nt(fp(&(first, second, via_includepath)));
            let tree_out = build_file(root.join("main.asm"), BTreeSet::new());
            let flat_out = build(&pasted);
            if let Err((k, why)) = compare(&tree_out, &flat_out, &[]) {
                ev.violation(Violation { sig: format!("c11:same-name:{}", if via_includepath { "includepath" } else { "path-with-directory" }), what: format!("[{} then {}] {} ({})", first, second, why, k), replay: json!({"kind": "same_name", "first": first, "second": second, "via_includepath": via_includepath}) });
            }
            let _ = std::fs::remove_dir_all(&root);
        }
    }
}

/// Text of about `size` bytes whose decisive lines stand at its very end: padding is comment
/// lines (`pad` 0), blank lines and short comments (1) or data lines with comments (2).
fn large_text(size: usize, pad: u8, last: &str) -> String {
    let mut t = String::with_capacity(size + 200);
    t.push_str(".dw 0x1001\n");
    let mut i = 0usize;
    while t.len() + last.len() < size {
        match pad {
            0 => t.push_str(&format!("; padding line {:>8} ........................................................\n", i)),
            1 => t.push_str(if i % 3 == 0 { "\n" } else { " // x\n" }),
            _ => t.push_str(&format!(" .dw {} ; entry {} of a generated table\n", i % 65536, i)),
        }
        i += 1;
    }
    t.push_str(last);
    t
}

pub fn large_file_case(size: usize, role: u8, pad: u8) -> (Vec<(&'static str, String)>, String) {
    match role {
        // the included file is large; what it defines at its end is used behind the include
        0 => {
            let part = large_text(size, pad, ".equ c11_last = 0x77\n.dw 0x2002\n");
            let main = ".dw 1\n.include \"part.inc\"\n.dw c11_last\n".to_string();
            let pasted = main.replace(".include \"part.inc\"\n", &part);
            (vec![("main.asm", main), ("part.inc", part)], pasted)
        }
        // the main file is large and includes a small file at its end
        1 => {
            let main = large_text(size, pad, ".include \"part.inc\"\n.dw c11_last\n");
            let part = ".equ c11_last = 0x66\n.dw 0x3003\n".to_string();
            let pasted = main.replace(".include \"part.inc\"\n", &part);
            (vec![("main.asm", main), ("part.inc", part)], pasted)
        }
        // a large file that ends with .exit in its middle third: only the file is cut off
        _ => {
            let head = large_text(size / 2, pad, ".equ c11_last = 0x55\n.exit\n");
            let tail = large_text(size / 2, 0, "this line is never read\n");
            let part = format!("{}{}", head, tail);
            let main = ".dw 1\n.include \"part.inc\"\n.dw c11_last\n".to_string();
            let pasted = main.replace(".include \"part.inc\"\n", &head.replace(".exit\n", ""));
            (vec![("main.asm", main), ("part.inc", part)], pasted)
        }
    }
}

fn large_file_verdict(size: usize, role: u8, pad: u8, slot: &str) -> Result<(), (String, String)> {
    let (files, pasted) = large_file_case(size, role, pad);
    let root = scratch_dir().join(format!("c11-large-{}", slot));
    let _ = std::fs::remove_dir_all(&root);
    let _ = std::fs::create_dir_all(&root);
    for (n, t) in &files {
        let _ = std::fs::write(root.join(n), t);
    }
    let tree_out = build_file(root.join("main.asm"), BTreeSet::new());
    let flat_out = build(&pasted);
    let _ = std::fs::remove_dir_all(&root);
    if !matches!(flat_out, Outcome::Ok(_)) {
        return Err(("harness".into(), format!("the pasted text does not build: {}", flat_out.brief())));
    }
    compare(&tree_out, &flat_out, &[])
}

/// Files far larger than any fixture: sizes around 2^16, 2^20, 2^22 bytes and a few between.
fn large_files_leg(ev: &mut Ev, thorough: bool) {
    let mut sizes: Vec<usize> = vec![40_000, 65_530, 65_600, 300_000, (1 << 20) - 40, (1 << 20) + 90, 2_500_000];
    if thorough {
        sizes.extend([(1 << 22) + 17, 6_000_000, (1 << 24) + 5]);
    }
    let cases: Vec<(usize, u8, u8)> = sizes.iter().flat_map(|&s| (0u8..3).flat_map(move |role| (0u8..3).map(move |pad| (s, role, pad)))).filter(|(s, _, pad)| *pad != 2 || *s <= 300_000).collect();
    use rayon::prelude::*;
    let results: Vec<((usize, u8, u8), Result<(), (String, String)>)> = cases.par_iter().map(|&(s, role, pad)| ((s, role, pad), large_file_verdict(s, role, pad, &format!("{}-{}-{}", s, role, pad)))).collect();
    for ((s, role, pad), r) in results {
        ev.eval();
        ev.class("file-larger-than-any-fixture");
        if s > (1 << 20) {
            ev.class("file-larger-than-1MiB");
        }
        ev.nt(fp(&(s, role, pad)));
        if let Err((k, why)) = r {
            if k == "harness" {
                ev.class("large-file:pasted-text-not-usable");
                continue;
            }
            ev.violation(Violation { sig: format!("c11:large-file:{}:{}", ["included-file", "main-file", "exit-in-large-file"][role as usize % 3], k), what: format!("[file of about {} bytes, padding kind {}] {}", s, pad, why.chars().take(300).collect::<String>()), replay: json!({"kind": "large_file", "size": s, "role": role, "pad": pad}) });
        }
    }
}

fn spanning_leg(ev: &mut Ev) {
    for (tag, files, pasted, sig) in spanning_cases() {
        ev.eval();
        ev.class("construct-spanning-a-file-boundary");
        ev.nt(fp(&pasted));
        let root = scratch_dir().join(format!("c11-span-{}", tag));
        let _ = std::fs::remove_dir_all(&root);
        let _ = std::fs::create_dir_all(&root);
        for (n, t) in &files {
            let _ = std::fs::write(root.join(n), t);
        }
        let tree_out = build_file(root.join("main.asm"), BTreeSet::new());
        let flat_out = build(&pasted);
        if let Err((k, why)) = compare(&tree_out, &flat_out, &[]) {
            ev.violation(Violation { sig: format!("c11:spanning:{}", sig), what: format!("[{}] {} ({})", tag, why, k), replay: json!({"kind": "spanning", "tag": tag}) });
        }
        let _ = std::fs::remove_dir_all(&root);
    }
}

pub fn run(ctx: &Ctx) -> Result<Ev, String> {
    let opts = ModelOpts { devices: model::model_devices() };
    let shards = 32usize;
    let per = (if ctx.thorough { 150_000 } else { 12_000 } / shards).max(1) as u32;
    let seed = ctx.seed;
    let mut total = par::run_shards("C11", shards, |s| par::prop_shard("C11", seed, s, per, &raw_tree(), |c, ev| test(c, ev, &opts, &format!("{}", s))));
    many_includes_leg(&mut total);
    spanning_leg(&mut total);
    same_name_leg(&mut total);
    large_files_leg(&mut total, ctx.thorough);
    if total.has_violation() {
        return Ok(total);
    }
    if total.discarded * 10 > total.evaluations {
        return Err(format!("generator unsound: {} of {} pasted programs unusable", total.discarded, total.evaluations));
    }
    for required in ["depth>=2", "includepath-relative-to-nested-file", "includepath-in-earlier-sibling", "exit-present", "symbols-cross-boundaries-both-directions", "missing-include-must-fail", "placement:as-written-absolute", "placement:as-written-relative-to-cwd", "placement:includer-subdirectory", "placement:caller-supplied-directory", "placement:includepath-relative"] {
        if total.classes.get(required).copied().unwrap_or(0) == 0 {
            return Err(format!("generator degenerate: class {} never produced", required));
        }
    }
    Ok(total)
}

pub fn rule() -> String {
    "proptest: a flat program of up to ~30 chunks (markers, labels, .equ, macro definitions, uses of those from other chunks in both directions, .device in an included file, .define / .ifdef pairs, .message/.warning, .dseg excursions) split by a generated bracket structure into a tree of 1–8 files, depth ≤ 4; every file is placed in exactly one directory and reached by exactly one rule: path as written (absolute / relative to the working directory), directory of the including file (also sub/…), caller-supplied directory, directory named by an earlier .includepath (absolute or relative to the file carrying the directive; carried by the including file or by a previously included sibling); ~20 % of the files end with .exit followed by poison; one leg includes a file that exists nowhere; a deterministic leg opens a conditional or a macro definition in one file and closes it in the other. Oracle: build_file(tree) equals build_str(pasted text) in images, sizes, ram_filling and message texts in order, message line numbers are the lines in their own files, and the pasted text matches the reference model. Non-trivial = depth ≥ 2, or an .includepath relative to a nested file, or symbols crossing a boundary in both directions, or .exit present, or the missing-file leg; distinct = distinct file tree".into()
}
