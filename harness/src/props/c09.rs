//! C09 — a macro call behaves as its body with the call's arguments substituted.
//!
//! The generator expands every call itself on the AST (`model::flatten`: argument sub-trees take
//! the place of `@n`) and renders a macro-free program; the tool's result for the program with
//! macros must equal its result for the hand-expanded program and the reference model's image.

use crate::ast::*;
use crate::evidence::{fp, Ev, Violation};
use crate::gen::{self, recase, ExprCtx};
use crate::model::{self, Expect, ModelOpts};
use crate::oracle::Check;
use crate::par;
use crate::render::{render, Style};
use crate::Ctx;
use proptest::prelude::*;
use serde_json::json;

pub const K_R: u8 = 0; // register r16..r31
pub const K_P: u8 = 1; // pointer form X, X+, -X, ...
pub const K_Q: u8 = 2; // Y+q / Z+q
pub const K_W: u8 = 3; // whole-operand expression (any)
pub const K_A: u8 = 4; // expression embedded in a larger one (atom / function / parenthesised)
pub const K_B: u8 = 5; // byte-valued atom
pub const K_C: u8 = 6; // condition literal
pub const K_L: u8 = 7; // number that makes labels unique
pub const K_F: u8 = 8; // name of a .define flag (case-sensitive), tested with .ifdef/.ifndef in the body

#[derive(Clone, Debug)]
pub struct RawMacro {
    pub kinds: Vec<u8>,
    pub body: Vec<(u8, u8, u8)>,
    pub name_case: (u8, u32),
    pub excursion_at_end: bool,
}

#[derive(Clone, Debug)]
pub struct RawCall {
    pub mac: u16,
    pub name_case: (u8, u32),
    pub raw: Vec<u8>,
    pub before_def: bool,
}

#[derive(Clone, Debug)]
pub enum Leg {
    Valid,
    UndefinedMacro,
    MissingArgument(u16),
}

#[derive(Clone, Debug)]
pub struct RawMacros {
    pub macros: Vec<RawMacro>,
    pub calls: Vec<RawCall>,
    pub exprs: Vec<E>,
    pub names: Vec<String>,
    pub leg: Leg,
    pub style: Style,
}

pub fn raw_macros() -> impl Strategy<Value = RawMacros> {
    let mac = (proptest::collection::vec(0u8..9, 0..=10), proptest::collection::vec((any::<u8>(), any::<u8>(), any::<u8>()), 1..7), (any::<u8>(), any::<u32>()), proptest::bool::weighted(0.25))
        .prop_map(|(kinds, body, name_case, excursion_at_end)| RawMacro { kinds, body, name_case, excursion_at_end });
    let call = (any::<u16>(), (any::<u8>(), any::<u32>()), proptest::collection::vec(any::<u8>(), 24), proptest::bool::weighted(0.3)).prop_map(|(mac, name_case, raw, before_def)| RawCall { mac, name_case, raw, before_def });
    let leg = prop_oneof![8 => Just(Leg::Valid), 1 => Just(Leg::UndefinedMacro), 1 => any::<u16>().prop_map(Leg::MissingArgument)];
    let ctx = ExprCtx { syms: vec![], pc: false, args: 0 };
    (proptest::collection::vec(mac, 1..5), proptest::collection::vec(call, 1..7), proptest::collection::vec(gen::expr(&ctx, 4), 6), gen::names(6), leg, gen::style()).prop_map(|(macros, calls, exprs, names, leg, style)| RawMacros { macros, calls, exprs, names, leg, style })
}

#[derive(Default, Debug)]
pub struct Shape {
    pub non_atomic_arg: bool,
    pub excursion: bool,
    pub excursion_at_end: bool,
    pub nested_call: bool,
    pub name_case_differs: bool,
    pub call_before_def: bool,
    pub conditional_in_body: bool,
    pub message_in_body: bool,
    pub leg: &'static str,
}

/// `.define` flags are case-sensitive: FlagA and Flag_B are defined in the prelude, the others not.
pub const FLAGS: &[&str] = &["FlagA", "Flag_B", "flaga", "FLAG_B", "NoFlag"];

fn find_kind(kinds: &[u8], k: u8, salt: u8) -> Option<u8> {
    let c: Vec<u8> = (0..kinds.len() as u8).filter(|i| kinds[*i as usize] == k).collect();
    if c.is_empty() {
        None
    } else {
        Some(c[salt as usize % c.len()])
    }
}

fn is_atomic(e: &E) -> bool {
    matches!(e, E::Num(_) | E::Chr(_) | E::Sym(_))
}

pub struct Built {
    pub prog: Vec<Ln>,
    pub shape: Shape,
    pub expect_fail: bool,
}

pub fn build(r: &RawMacros) -> Built {
    let mut shape = Shape::default();
    let nm = r.macros.len();
    let mname = |i: usize| r.names[i % r.names.len()].clone();
    // usable expressions only (the property is about substitution, not about failing arithmetic)
    let pool: Vec<E> = r.exprs.iter().map(|e| if model::eval_closed(e).is_ok() { e.clone() } else { E::Num(e.depth() as i64 + 3) }).collect();
    // ---- macro bodies
    let mut defs: Vec<Ln> = vec![];
    for (mi, m) in r.macros.iter().enumerate() {
        let kinds = &m.kinds;
        let has_l = find_kind(kinds, K_L, 0);
        let mut body: Vec<Ln> = vec![];
        let mut label_used = false;
        let mut nested_done = vec![false; nm];
        let excursion = |body: &mut Vec<Ln>, a: u8, tag: &str, shape: &mut Shape| {
            shape.excursion = true;
            body.push(Ln::st(St::Seg(Seg::Data)));
            match has_l {
                Some(l) => body.push(Ln::with_label(&format!("vd{}{}_@{}", tag, mi, l), St::Byte(E::Num(1 + (a % 4) as i64)))),
                None => body.push(Ln::st(St::Byte(E::Num(1 + (a % 4) as i64)))),
            }
            body.push(Ln::st(St::Seg(Seg::Code)));
        };
        let mut exc_count = 0;
        for (t, a, b) in &m.body {
            let (a, b) = (*a, *b);
            let reg = |salt: u8| find_kind(kinds, K_R, salt).map(Opnd::Arg).unwrap_or(Opnd::Reg(16 + salt % 16));
            let atom = |salt: u8| find_kind(kinds, K_A, salt).map(E::Arg).unwrap_or(E::Num(salt as i64));
            let byte = |salt: u8| find_kind(kinds, K_B, salt).map(E::Arg).unwrap_or(E::Num(salt as i64));
            match t % 15 {
                // a message from the body: it is issued where the call stands (order of assembly)
                14 => {
                    shape.message_in_body = true;
                    body.push(Ln::st(St::Msg(if b & 1 == 0 { MsgKind::Message } else { MsgKind::Warning }, format!("body of macro {} says {}", mi, a))));
                }
                0 => body.push(Ln::st(St::Ins("mov".into(), vec![reg(a), Opnd::Reg(b % 32)]))),
                1 => body.push(Ln::st(St::Ins("ldi".into(), vec![reg(a), Opnd::Ex(E::Num(b as i64))]))),
                2 => {
                    let p = find_kind(kinds, K_P, a).map(Opnd::Arg).unwrap_or(Opnd::Ptr(Ptr::Z, PMode::PostInc));
                    if b & 1 == 0 {
                        body.push(Ln::st(St::Ins("ld".into(), vec![Opnd::Reg(b % 32), p])));
                    } else {
                        body.push(Ln::st(St::Ins("st".into(), vec![p, Opnd::Reg(b % 32)])));
                    }
                }
                3 => {
                    let q = find_kind(kinds, K_Q, a).map(Opnd::Arg).unwrap_or(Opnd::PtrQ(Ptr::Y, E::Num(3)));
                    if b & 1 == 0 {
                        body.push(Ln::st(St::Ins("ldd".into(), vec![Opnd::Reg(b % 32), q])));
                    } else {
                        body.push(Ln::st(St::Ins("std".into(), vec![q, Opnd::Reg(b % 32)])));
                    }
                }
                4 => {
                    let w = find_kind(kinds, K_W, a).map(E::Arg).unwrap_or(E::Num(a as i64));
                    body.push(Ln::st(St::Data(DKind::Dq, vec![DItem::Ex(w)])));
                }
                5 => {
                    let w = find_kind(kinds, K_W, a).map(E::Arg).unwrap_or(E::Num(a as i64 * 300));
                    body.push(Ln::st(St::Ins("ldi".into(), vec![Opnd::Reg(16 + b % 16), Opnd::Ex(E::Fn(if b & 16 == 0 { Func::Low } else { Func::High }, Box::new(w)))])));
                }
                6 => {
                    let x = atom(a);
                    let e = match b % 5 {
                        0 => E::bin(BinOp::Add, E::bin(BinOp::Mul, x, E::Num((b % 7) as i64 + 1)), E::Num(a as i64)),
                        1 => E::bin(BinOp::Sub, E::Num(a as i64), x),
                        2 => E::bin(BinOp::Or, E::bin(BinOp::Shl, x, E::Num(2)), E::Num(1)),
                        3 => E::un(UnOp::Neg, x),
                        _ => E::bin(BinOp::Sub, E::bin(BinOp::Sub, E::Num(1000), x), atom(a.wrapping_add(1))),
                    };
                    body.push(Ln::st(St::Data(DKind::Dq, vec![DItem::Ex(e)])));
                }
                7 => body.push(Ln::st(St::Data(DKind::Db, vec![DItem::Ex(byte(a)), DItem::Ex(E::Num(b as i64)), DItem::Ex(byte(a.wrapping_add(1)))]))),
                8 => body.push(Ln::st(St::Data(DKind::Dw, vec![DItem::Ex(E::Fn(Func::Lwrd, Box::new(atom(a))))]))),
                9 if find_kind(kinds, K_F, a).is_some() && b & 1 == 0 => {
                    shape.conditional_in_body = true;
                    let f = find_kind(kinds, K_F, a).unwrap();
                    let then_b = vec![Ln::st(St::Data(DKind::Dw, vec![DItem::Ex(E::Num(0x3333))]))];
                    let else_b = vec![Ln::st(St::Data(DKind::Dw, vec![DItem::Ex(E::Num(0x4444))]))];
                    let name = format!("@{}", f);
                    body.push(Ln::st(St::If(vec![(if b & 2 == 0 { Cond::Ifdef(name) } else { Cond::Ifndef(name) }, then_b)], Some(else_b))));
                }
                9 => {
                    shape.conditional_in_body = true;
                    let c = find_kind(kinds, K_C, a).map(E::Arg).unwrap_or(E::Num((a % 2) as i64));
                    let then_b = vec![Ln::st(St::Ins("mov".into(), vec![reg(b), Opnd::Reg(1)])), Ln::st(St::Data(DKind::Dw, vec![DItem::Ex(E::Num(0x1111))]))];
                    let else_b = vec![Ln::st(St::Data(DKind::Dw, vec![DItem::Ex(E::Num(0x2222)), DItem::Ex(E::Fn(Func::Lwrd, Box::new(atom(b))))]))];
                    body.push(Ln::st(St::If(vec![(Cond::Expr(c), then_b)], Some(else_b))));
                }
                10 => {
                    // nested call of a macro with a smaller index (no recursion)
                    if mi > 0 {
                        let j = a as usize % mi;
                        let inner = &r.macros[j];
                        let inner_has_l = find_kind(&inner.kinds, K_L, 0).is_some();
                        if !nested_done[j] && (!inner_has_l || has_l.is_some()) {
                            nested_done[j] = true;
                            shape.nested_call = true;
                            let mut args = vec![];
                            for (pi, k) in inner.kinds.iter().enumerate() {
                                let salt = b.wrapping_add(pi as u8);
                                let o = match (*k, find_kind(kinds, *k, salt)) {
                                    (K_A, Some(n)) if salt & 1 == 0 => Opnd::Ex(E::bin(BinOp::Add, E::Arg(n), E::Num(1))),
                                    (K_R | K_P | K_Q, Some(n)) => Opnd::Arg(n),
                                    (_, Some(n)) => Opnd::Ex(E::Arg(n)),
                                    (K_R, None) => Opnd::Reg(16 + salt % 16),
                                    (K_P, None) => Opnd::Ptr(Ptr::X, PMode::Plain),
                                    (K_Q, None) => Opnd::PtrQ(Ptr::Z, E::Num((salt % 64) as i64)),
                                    (K_C, None) => Opnd::Ex(E::Num((salt % 2) as i64)),
                                    (K_L, None) => Opnd::Ex(E::Num(0)),
                                    (K_F, None) => Opnd::Ex(E::Flag(FLAGS[salt as usize % FLAGS.len()].to_string())),
                                    (_, None) => Opnd::Ex(E::Num(salt as i64)),
                                };
                                args.push(o);
                            }
                            body.push(Ln::st(St::Call(recase(&mname(j), b, a as u32 * 77), args)));
                        }
                    }
                }
                11 => {
                    if exc_count < 2 {
                        excursion(&mut body, a, if exc_count == 0 { "a" } else { "b" }, &mut shape);
                        exc_count += 1;
                    }
                }
                12 => {
                    shape.excursion = true;
                    body.push(Ln::st(St::Seg(Seg::Eeprom)));
                    body.push(Ln::st(St::Data(DKind::Db, vec![DItem::Ex(byte(a))])));
                    body.push(Ln::st(St::Seg(Seg::Code)));
                }
                _ => {
                    if let (Some(l), false) = (has_l, label_used) {
                        label_used = true;
                        body.push(Ln::with_label(&format!("v{}_@{}", mi, l), St::Ins("nop".into(), vec![])));
                        body.push(Ln::st(St::Ins("rjmp".into(), vec![Opnd::Ex(E::Sym(format!("v{}_@{}", mi, l)))])));
                    } else {
                        body.push(Ln::st(St::Ins("nop".into(), vec![])));
                    }
                }
            }
        }
        if m.excursion_at_end {
            excursion(&mut body, 1, "e", &mut shape);
            shape.excursion_at_end = true;
        }
        defs.push(Ln::st(St::MacroDef(recase(&mname(mi), m.name_case.0, m.name_case.1), body)));
    }
    // ---- calls
    let mut label_no = 100i64;
    let mut before: Vec<Ln> = vec![];
    let mut after: Vec<Ln> = vec![];
    let mut call_positions: Vec<(bool, usize, usize)> = vec![]; // (before?, index in list, macro)
    for (ci, c) in r.calls.iter().enumerate() {
        let mi = gen::idx(c.mac, nm);
        let m = &r.macros[mi];
        let mut args = vec![];
        for (pi, k) in m.kinds.iter().enumerate() {
            let x = c.raw[pi * 2 % c.raw.len()];
            let y = c.raw[(pi * 2 + 1) % c.raw.len()];
            let o = match *k {
                K_R => Opnd::Reg(16 + x % 16),
                K_P => {
                    let (p, mo) = super::c01::PTR_FORMS[x as usize % 9];
                    Opnd::Ptr(p, mo)
                }
                K_Q => Opnd::PtrQ(if x & 1 == 0 { Ptr::Y } else { Ptr::Z }, if y & 1 == 0 { E::Num((y % 64) as i64) } else { E::bin(BinOp::Add, E::Num((y % 32) as i64), E::Num((x % 32) as i64)) }),
                K_W => {
                    let e = pool[x as usize % pool.len()].clone();
                    if !is_atomic(&e) {
                        shape.non_atomic_arg = true;
                    }
                    Opnd::Ex(e)
                }
                K_A => {
                    let e = pool[x as usize % pool.len()].clone();
                    let e = match y % 4 {
                        0 => E::Num(y as i64),
                        1 => E::Fn(ALL_FUNCS[y as usize % 7], Box::new(e)),
                        _ => {
                            if e.is_atom() {
                                e
                            } else {
                                E::Par(Box::new(e))
                            }
                        }
                    };
                    if !is_atomic(&e) {
                        shape.non_atomic_arg = true;
                    }
                    Opnd::Ex(e)
                }
                K_B => match y % 3 {
                    0 => Opnd::Ex(E::Num(x as i64)),
                    1 => {
                        shape.non_atomic_arg = true;
                        Opnd::Ex(E::Fn(Func::Low, Box::new(pool[x as usize % pool.len()].clone())))
                    }
                    _ => Opnd::Ex(E::Chr(0x41 + x % 26)),
                },
                K_C => Opnd::Ex(E::Num([0, 1, 5, 0][x as usize % 4])),
                K_F => Opnd::Ex(E::Flag(FLAGS[x as usize % FLAGS.len()].to_string())),
                _ => {
                    label_no += 1;
                    Opnd::Ex(E::Num(label_no))
                }
            };
            args.push(o);
        }
        let spelled = recase(&mname(mi), c.name_case.0, c.name_case.1);
        if spelled != recase(&mname(mi), m.name_case.0, m.name_case.1) {
            shape.name_case_differs = true;
        }
        let line = Ln::st(St::Call(spelled, args));
        let marker = Ln::st(St::Data(DKind::Dw, vec![DItem::Ex(E::Num(0xa000 + ci as i64))]));
        if c.before_def {
            shape.call_before_def = true;
            call_positions.push((true, before.len(), mi));
            before.push(line);
            before.push(marker);
            if ci % 2 == 0 {
                before.push(Ln::st(St::Msg(MsgKind::Message, format!("after call {}", ci))));
            }
        } else {
            call_positions.push((false, after.len(), mi));
            after.push(line);
            after.push(marker);
            if ci % 2 == 0 {
                after.push(Ln::st(St::Msg(MsgKind::Warning, format!("after call {}", ci))));
            }
        }
    }
    let mut expect_fail = false;
    match &r.leg {
        Leg::Valid => {}
        Leg::UndefinedMacro => {
            after.push(Ln::st(St::Call("no_such_macro_c09".into(), vec![Opnd::Reg(16)])));
            expect_fail = true;
            shape.leg = "undefined-macro";
        }
        Leg::MissingArgument(sel) => {
            // drop the last argument of a call whose macro uses that parameter in its body
            let uses_param = |mi: usize, n: u8| -> bool {
                let mut found = false;
                fn scan(ls: &[Ln], n: u8, found: &mut bool) {
                    for l in ls {
                        if let Some(lab) = &l.label {
                            if lab.contains(&format!("@{}", n)) {
                                *found = true;
                            }
                        }
                        fn has_arg(e: &E, n: u8) -> bool {
                            let mut f = false;
                            e.visit(&mut |x| {
                                if *x == E::Arg(n) {
                                    f = true
                                }
                            });
                            f
                        }
                        match &l.st {
                            Some(St::Ins(_, ops)) | Some(St::Call(_, ops)) => {
                                for o in ops {
                                    match o {
                                        Opnd::Arg(k) if *k == n => *found = true,
                                        Opnd::Ex(e) | Opnd::PtrQ(_, e) => *found |= has_arg(e, n),
                                        _ => {}
                                    }
                                }
                            }
                            Some(St::Data(_, items)) => {
                                for i in items {
                                    if let DItem::Ex(e) = i {
                                        *found |= has_arg(e, n)
                                    }
                                }
                            }
                            Some(St::Byte(e)) => *found |= has_arg(e, n),
                            Some(St::If(arms, els)) => {
                                for (c, b) in arms {
                                    if let Cond::Expr(e) = c {
                                        *found |= has_arg(e, n)
                                    }
                                    scan(b, n, found);
                                }
                                if let Some(b) = els {
                                    scan(b, n, found)
                                }
                            }
                            _ => {}
                        }
                    }
                }
                if let Some(St::MacroDef(_, body)) = &defs[mi].st {
                    scan(body, n, &mut found);
                }
                found
            };
            let cands: Vec<usize> = (0..call_positions.len())
                .filter(|i| {
                    let mi = call_positions[*i].2;
                    let k = r.macros[mi].kinds.len();
                    k > 0 && uses_param(mi, (k - 1) as u8)
                })
                .collect();
            if !cands.is_empty() {
                let (bef, at, _) = call_positions[cands[gen::idx(*sel, cands.len())]];
                let list = if bef { &mut before } else { &mut after };
                if let Some(St::Call(_, args)) = &mut list[at].st {
                    args.pop();
                }
                expect_fail = true;
                shape.leg = "missing-argument";
            }
        }
    }
    let mut prog = vec![Ln::st(St::Ins("nop".into(), vec![])), Ln::st(St::Define("FlagA".into())), Ln::st(St::Define("Flag_B".into()))];
    prog.extend(before);
    prog.extend(defs);
    prog.extend(after);
    Built { prog, shape, expect_fail }
}

/// The macro-free program: what the reference expansion produced, as plain lines.
pub fn hand_expanded(prog: &[Ln]) -> Vec<Ln> {
    let fl = model::flatten(prog);
    let mut out: Vec<Ln> = vec![];
    if let Some(d) = &fl.device {
        out.push(Ln::st(St::Device(d.clone())));
    }
    for (n, e) in &fl.equs {
        out.push(Ln::st(St::Equ(n.clone(), e.clone())));
    }
    for f in &fl.flats {
        out.push(Ln { label: f.label.clone(), st: f.st.clone() });
    }
    out
}

pub fn test(r: &RawMacros, ev: &mut Ev, opts: &ModelOpts) -> Result<(), Violation> {
    ev.eval();
    let b = build(r);
    let text = render(&b.prog, r.style).text;
    let (exp, stats) = model::assemble(&b.prog, opts);
    for (c, on) in [
        ("non-atomic-expression-argument", b.shape.non_atomic_arg),
        ("segment-excursion-in-body", b.shape.excursion),
        ("segment-excursion-as-last-lines", b.shape.excursion_at_end),
        ("nested-call", stats.nested_calls > 0),
        ("definition-and-call-names-differ-in-case", b.shape.name_case_differs),
        ("call-before-definition", b.shape.call_before_def),
        ("conditional-in-body", b.shape.conditional_in_body),
        ("message-in-body", b.shape.message_in_body),
    ] {
        if on {
            ev.class(c);
        }
    }
    if b.shape.non_atomic_arg || b.shape.excursion || stats.nested_calls > 0 || b.shape.name_case_differs || b.expect_fail {
        ev.nt(fp(&text));
    }
    let sig_class = if b.shape.excursion_at_end {
        "excursion-at-end"
    } else if b.shape.excursion {
        "excursion"
    } else if stats.nested_calls > 0 {
        "nested"
    } else {
        "plain"
    };
    match (&exp, b.expect_fail) {
        (Expect::Ok(img), false) => {
            ev.class("valid");
            let flat = hand_expanded(&b.prog);
            let flat_text = render(&flat, Style::CANON).text;
            if ev.samples.len() < 2 {
                ev.samples.push(json!({"program": text, "hand_expanded": flat_text}));
            }
            let kind = |why: &str| if why.contains("anic") { "panic" } else if why.contains("Err(") { "rejected" } else { "differs" };
            // the macro-free program must match the model (validates the expansion itself) …
            let c0 = Check::Image { src: flat_text.clone(), code: Some(img.code.clone()), eeprom: Some(img.eeprom.clone()), ram_filling: Some(img.ram_filling), sizes: None, messages: None };
            if let Err(why) = c0.eval() {
                ev.discarded += 1;
                ev.class(&format!("harness-inconsistent:hand-expansion-vs-model:{}", crate::run::truncate(&why, 80)));
                return Ok(());
            }
            // … and the program with macros must behave like it
            let c1 = Check::Same { a: text.clone(), b: flat_text, messages: true, allow_both_fail: false };
            c1.eval().map_err(|why| Violation { sig: format!("c09:{}:{}", sig_class, kind(&why)), what: why, replay: c1.to_json() })?;
            let c2 = Check::Image { src: text, code: Some(img.code.clone()), eeprom: Some(img.eeprom.clone()), ram_filling: Some(img.ram_filling), sizes: None, messages: None };
            c2.eval().map_err(|why| Violation { sig: format!("c09:{}:{}", sig_class, kind(&why)), what: why, replay: c2.to_json() })
        }
        (Expect::Fail { .. }, true) => {
            ev.class(&format!("must-fail:{}", b.shape.leg));
            let chk = Check::MustFail { src: text, token: None };
            chk.eval().map_err(|why| Violation { sig: format!("c09:{}:{}", b.shape.leg, if why.contains("anic") { "panic" } else { "accepted" }), what: why, replay: chk.to_json() })
        }
        (Expect::Unsure(_), _) => {
            ev.discarded += 1;
            Ok(())
        }
        (e, f) => {
            ev.discarded += 1;
            let why = match e {
                Expect::Ok(_) => "model-accepts".to_string(),
                Expect::Fail { reason, .. } => reason.split(' ').take(2).collect::<Vec<_>>().join("-"),
                Expect::Unsure(_) => "unsure".to_string(),
            };
            ev.class(&format!("generator-imprecise:intended_fail={}:{}", f, why));
            Ok(())
        }
    }
}

/// Deterministic legs with many calls: every call gives its resources back, whatever it expands to.
pub fn many_call_programs() -> Vec<(String, Vec<Ln>)> {
    let dw = |e: E| Ln::st(St::Data(DKind::Dw, vec![DItem::Ex(e)]));
    let call = |n: &str, args: Vec<Opnd>| Ln::st(St::Call(n.to_string(), args));
    let mut out = vec![];
    for n in [1usize, 63, 64, 65, 130, 1000] {
        // calls that expand to nothing, then ordinary ones
        let mut p = vec![Ln::st(St::MacroDef("empty_m".into(), vec![])), Ln::st(St::MacroDef("real_m".into(), vec![dw(E::Arg(0)), Ln::st(St::Ins("mov".into(), vec![Opnd::Arg(1), Opnd::Reg(2)]))]))];
        for _ in 0..n {
            p.push(call("empty_m", vec![]));
        }
        p.push(call("real_m", vec![Opnd::Ex(E::Num(77)), Opnd::Reg(20)]));
        p.push(call("REAL_M", vec![Opnd::Ex(E::bin(BinOp::Mul, E::Num(3), E::Par(Box::new(E::bin(BinOp::Add, E::Num(1), E::Num(2)))))), Opnd::Reg(21)]));
        out.push((format!("{}-empty-expansions-then-a-call", n), p));
        // calls whose conditional body assembles nothing
        let mut p = vec![
            Ln::st(St::MacroDef("cond_m".into(), vec![Ln::st(St::If(vec![(Cond::Expr(E::Arg(0)), vec![Ln::st(St::Ins("nop".into(), vec![]))])], None))])),
            Ln::st(St::MacroDef("real_m".into(), vec![dw(E::Arg(0))])),
        ];
        for i in 0..n {
            p.push(call("cond_m", vec![Opnd::Ex(E::Num(if i % 50 == 49 { 1 } else { 0 }))]));
        }
        p.push(call("real_m", vec![Opnd::Ex(E::Num(99))]));
        out.push((format!("{}-calls-with-untaken-conditional-body", n), p));
        // calls that only switch segments and reserve data
        let mut p = vec![
            Ln::st(St::MacroDef("res_m".into(), vec![Ln::st(St::Seg(Seg::Data)), Ln::st(St::Byte(E::Arg(0))), Ln::st(St::Seg(Seg::Code))])),
            Ln::st(St::MacroDef("real_m".into(), vec![dw(E::Arg(0))])),
        ];
        for i in 0..n.min(200) {
            p.push(call("res_m", vec![Opnd::Ex(E::Num(1 + (i % 3) as i64))]));
            if i % 7 == 0 {
                p.push(call("real_m", vec![Opnd::Ex(E::Num(i as i64))]));
            }
        }
        p.push(call("real_m", vec![Opnd::Ex(E::Num(99))]));
        out.push((format!("{}-calls-that-only-reserve-data", n.min(200)), p));
    }
    // nesting chains of legal depth, called repeatedly
    for depth in [2usize, 5, 10, 20] {
        let mut p = vec![Ln::st(St::MacroDef("c0".into(), vec![dw(E::bin(BinOp::Add, E::Arg(0), E::Num(1)))]))];
        for d in 1..=depth {
            p.push(Ln::st(St::MacroDef(format!("c{}", d), vec![call(&format!("c{}", d - 1), vec![Opnd::Ex(E::bin(BinOp::Add, E::Arg(0), E::Num(d as i64)))]), Ln::st(St::Ins("nop".into(), vec![]))])));
        }
        for i in 0..120 {
            p.push(call(&format!("C{}", depth), vec![Opnd::Ex(E::Num(i))]));
        }
        out.push((format!("chain-of-depth-{}-called-120-times", depth), p));
    }
    out
}

/// Deterministic pairs (program with macros, the same program expanded by hand) around the
/// bookkeeping of an expansion: origins set by a body, definitions placed inside conditionals and
/// closed with either spelling, literals that contain comment characters, the moment at which a
/// conditional of the body is decided, calls made while another segment is selected.
/// `both_fail` = the hand-expanded program is invalid (overlap), so the macro form must fail too.
pub fn context_programs() -> Vec<(&'static str, String, String, bool)> {
    let mut v: Vec<(&'static str, String, String, bool)> = vec![];
    let mut add = |tag: &'static str, a: &str, b: &str, both_fail: bool| v.push((tag, a.to_string(), b.to_string(), both_fail));
    let so = ".macro setorg\n.org @0\n.endm\n";
    add("org:body-is-only-an-org", &format!("{}nop\nsetorg 0x10\nx: nop\n.dw x\n", so), "nop\n.org 0x10\nx: nop\n.dw x\n", false);
    add("org:body-is-only-an-org:first-line-of-program", &format!("{}setorg 0x08\nx: nop\n.dw x\n", so), ".org 0x08\nx: nop\n.dw x\n", false);
    add("org:body-is-only-an-org:twice", &format!("{}nop\nsetorg 0x10\nx: nop\nsetorg 0x20\ny: .dw x, y\n", so), "nop\n.org 0x10\nx: nop\n.org 0x20\ny: .dw x, y\n", false);
    add("org:body-is-only-an-org:same-address-as-empty-block", &format!("{}.org 0x10\nsetorg 0x10\nx: nop\n.dw x\n", so), ".org 0x10\n.org 0x10\nx: nop\n.dw x\n", false);
    add("org:body-is-only-an-org:in-data-segment-of-body", ".macro dorg\n.dseg\n.org @0\n.cseg\n.endm\nnop\ndorg 0x100\n.dseg\nv: .byte 2\n.cseg\n.dw v\n", "nop\n.dseg\n.org 0x100\n.cseg\n.dseg\nv: .byte 2\n.cseg\n.dw v\n", false);
    let place = ".macro place\n.org @0\n.dw @1\n.endm\n";
    add("org:body-starts-with-org", &format!("{}nop\nplace 0x20, 1\nplace 0x30, 2\nx: .dw x\n", place), "nop\n.org 0x20\n.dw 1\n.org 0x30\n.dw 2\nx: .dw x\n", false);
    add("org:body-starts-with-org:first-line-of-program", &format!("{}place 0x20, 1\nx: .dw x\n", place), ".org 0x20\n.dw 1\nx: .dw x\n", false);
    add("org:body-starts-with-org:at-start-of-empty-caller-block", &format!("{}.org 0x20\nplace 0x20, 1\nx: .dw x\n", place), ".org 0x20\n.org 0x20\n.dw 1\nx: .dw x\n", false);
    add("org:body-ends-with-org", ".macro tail\nnop\n.org @0\n.endm\ntail 0x10\ny: nop\n.dw y\n", "nop\n.org 0x10\ny: nop\n.dw y\n", false);
    add("org:item-org-item", ".macro gap\n.dw @0\n.org @1\n.dw @2\n.endm\nnop\ngap 1, 0x10, 2\nz: .dw z\ngap 3, 0x20, 4\n", "nop\n.dw 1\n.org 0x10\n.dw 2\nz: .dw z\n.dw 3\n.org 0x20\n.dw 4\n", false);
    add("org:in-data-excursion", ".macro dv\n.dseg\n.org @0\nv@1: .byte 2\n.cseg\n.endm\nnop\ndv 0x100, 1\ndv 0x110, 2\n.dw v1, v2\n", "nop\n.dseg\n.org 0x100\nv1: .byte 2\n.cseg\n.dseg\n.org 0x110\nv2: .byte 2\n.cseg\n.dw v1, v2\n", false);
    add("org:in-eeprom-excursion", ".macro ev\n.eseg\n.org @0\ne@1: .db @1\n.cseg\n.endm\nnop\nev 4, 1\nev 9, 2\n.dw e1, e2\n", "nop\n.eseg\n.org 4\ne1: .db 1\n.cseg\n.eseg\n.org 9\ne2: .db 2\n.cseg\n.dw e1, e2\n", false);
    add("org:set-by-nested-call", &format!("{}.macro outer\nnop\nsetorg @0\n.dw @1\n.endm\nouter 0x10, 7\nw: .dw w\n", so), "nop\n.org 0x10\n.dw 7\nw: .dw w\n", false);
    add("org:back-to-start-of-caller-block:only-org", &format!("{}.org 0x10\nnop\nsetorg 0x10\nnop\n", so), ".org 0x10\nnop\n.org 0x10\nnop\n", true);
    add("org:back-to-start-of-caller-block:org-and-item", &format!("{}.org 0x20\nnop\nplace 0x20, 1\n", place), ".org 0x20\nnop\n.org 0x20\n.dw 1\n", true);
    add("org:backward:only-org", &format!("{}nop\nnop\nnop\nsetorg 1\nnop\n", so), "nop\nnop\nnop\n.org 1\nnop\n", true);
    // definitions inside conditionals, both end spellings
    for (tag, end) in [("definition:in-conditional:endm", ".endm"), ("definition:in-conditional:endmacro", ".endmacro")] {
        add(tag, &format!(".if 0\n.macro pick\nnop\n{e}\n.else\n.macro pick\nret\n{e}\n.endif\npick\n.dw 0x1234\n", e = end), "ret\n.dw 0x1234\n", false);
        add(tag, &format!(".if 1\n.macro pick\nnop\n{e}\n.else\n.macro pick\nret\n{e}\n.endif\npick\n.dw 0x1234\n", e = end), "nop\n.dw 0x1234\n", false);
        add(tag, &format!(".ifdef DBG\n.macro dbg\n.if @0\nnop\n.endif\n{e}\n.endif\nret\n.dw 0x4321\n", e = end), "ret\n.dw 0x4321\n", false);
        add(tag, &format!(".define DBG\n.ifdef DBG\n.macro dbg\nnop\n{e}\n.else\n.macro dbg\n{e}\n.endif\ndbg\nret\n", e = end), "nop\nret\n", false);
        add(tag, &format!(".ifndef DBG\n.macro dbg\n{e}\n.endif\ndbg\nret\n.dw 1\n", e = end), "ret\n.dw 1\n", false);
    }
    // comment characters inside literals of a body, comments that mention parameters
    add("literal:semicolon-character", ".macro put\n.db ';', @0, \"x;y\", @1\n.endm\nput 1, 2\n", ".db ';', 1, \"x;y\", 2\n", false);
    add("literal:semicolon-character", ".macro put\n.dq ';' * @0 + @1\n.endm\nput 2, 1+2\n", ".dq ';' * 2 + (1+2)\n", false);
    add("literal:semicolon-character", ".macro put\n.dw @0, ';', @1\n.endm\nput 7, 8\n", ".dw 7, ';', 8\n", false);
    add("literal:slashes-in-string", ".macro put\n.db \"a//b\", @0, '/', \"/*\", @1\n.endm\nput 1, 2\n", ".db \"a//b\", 1, '/', \"/*\", 2\n", false);
    add("literal:quote-characters", ".macro put\n.db '\"', @0, \"it's\", @1\n.endm\nput 1, 2\n", ".db '\"', 1, \"it's\", 2\n", false);
    add("comment:mentions-parameters", ".macro put\n.db @0 ; first of @0 and @1, never @7\n.db @1 // @5\n.db @0 /* @9 */\n.endm\nput 1, 2\n", ".db 1\n.db 2\n.db 1\n", false);
    // a macro without parameters called several times: every call is expanded where it stands
    add("argument-less:called-from-different-segments", ".macro tab\n.db 1, 2\n.endm\ntab\n.eseg\ntab\n.cseg\ntab\n.eseg\ntab\n", ".db 1, 2\n.eseg\n.db 1, 2\n.cseg\n.db 1, 2\n.eseg\n.db 1, 2\n", false);
    add("argument-less:called-from-different-segments", ".macro res\n.byte 3\n.endm\n.dseg\na: res\n.eseg\nb: res\nc: .db 1\n.dseg\nd: .byte 1\n.cseg\n.dw a, b, c, d\n", ".dseg\na: .byte 3\n.eseg\nb: .byte 3\nc: .db 1\n.dseg\nd: .byte 1\n.cseg\n.dw a, b, c, d\n", false);
    add("argument-less:body-changes-what-it-tests", ".macro once\n.ifndef once_done\n.define once_done\n.dw 0x1111\n.else\n.dw 0x2222\n.endif\n.endm\nonce\nonce\nonce\n", ".dw 0x1111\n.dw 0x2222\n.dw 0x2222\n", false);
    add("argument-less:org-in-body-from-different-segments", ".macro at8\n.org 8\n.endm\nnop\nat8\nx: nop\n.eseg\nat8\ny: .db 1\n.cseg\n.dw x, y\n", "nop\n.org 8\nx: nop\n.eseg\n.org 8\ny: .db 1\n.cseg\n.dw x, y\n", false);
    add("argument-less:uses-a-set-variable", ".set cnt = 0\n.macro next\n.set cnt = cnt + 1\n.dw cnt\n.endm\nnext\nnext\nnext\n", ".set cnt = 0\n.set cnt = cnt + 1\n.dw cnt\n.set cnt = cnt + 1\n.dw cnt\n.set cnt = cnt + 1\n.dw cnt\n", false);
    // one-line bodies called in a row: every expanded item comes from the same body line
    add("argument-less:one-line-pc-body-called-in-a-row", ".macro spin\nrjmp pc\n.endm\nspin\nspin\nspin\n.dw pc\nspin\n", "rjmp pc\nrjmp pc\nrjmp pc\n.dw pc\nrjmp pc\n", false);
    add("one-line-pc-body-with-argument-called-in-a-row", ".macro skip\nrjmp pc+@0\n.endm\nskip 1\nskip 1\nskip 2\nnop\nskip 0\nskip 0\n", "rjmp pc+1\nrjmp pc+1\nrjmp pc+2\nnop\nrjmp pc+0\nrjmp pc+0\n", false);
    add("one-line-data-pc-body-called-in-a-row", ".macro mark\n.dw pc, @0\n.endm\nmark 1\nmark 2\nmark 3\n.eseg\nmark 4\nmark 5\n", ".dw pc, 1\n.dw pc, 2\n.dw pc, 3\n.eseg\n.dw pc, 4\n.dw pc, 5\n", false);
    add("argument-less:pc-in-body", ".macro here\n.dw pc\nrjmp pc\n.endm\nhere\nnop\nhere\n.org 0x20\nhere\n", ".dw pc\nrjmp pc\nnop\n.dw pc\nrjmp pc\n.org 0x20\n.dw pc\nrjmp pc\n", false);
    // when a conditional of the body is decided: at the call, like every other line of the body
    add("timing:define-after-first-call", ".macro m\n.ifdef F\nnop\n.else\nret\n.endif\n.endm\nm\n.define F\nm\n", ".ifdef F\nnop\n.else\nret\n.endif\n.define F\n.ifdef F\nnop\n.else\nret\n.endif\n", false);
    add("timing:define-after-first-call", ".macro m\n.ifndef F\n.dw 1\n.endif\n.dw 2\n.endm\nm\n.define F\nm\n", ".ifndef F\n.dw 1\n.endif\n.dw 2\n.define F\n.ifndef F\n.dw 1\n.endif\n.dw 2\n", false);
    // calls made while the data or the EEPROM segment is selected
    add("call-in-other-segment:data", ".macro var\n@0: .byte @1\n.endm\n.dseg\nvar buf, 4\nvar cnt, 1\n.cseg\n.dw buf, cnt\n", ".dseg\nbuf: .byte 4\ncnt: .byte 1\n.cseg\n.dw buf, cnt\n", false);
    add("call-in-other-segment:eeprom", ".macro tab\n.db @0, @1\n.endm\nnop\n.eseg\ntab 1, 2\ntab 3, 4\n.cseg\nnop\n", "nop\n.eseg\n.db 1, 2\n.db 3, 4\n.cseg\nnop\n", false);
    v
}

pub fn run(ctx: &Ctx) -> Result<Ev, String> {
    let opts = ModelOpts { devices: vec![] };
    let mut fixed = Ev::new("C09");
    for (tag, a, b, both_fail) in context_programs() {
        fixed.eval();
        fixed.class(&format!("context-leg:{}", tag.split(':').next().unwrap_or(tag)));
        fixed.nt(fp(&a));
        // the hand-expanded side is the premise: it must behave as the leg says
        let rb = crate::run::build(&b);
        if rb.is_ok() == both_fail {
            return Err(format!("C09 context leg {}: the hand-expanded program {} ({})", tag, if both_fail { "builds but is meant to be invalid" } else { "does not build" }, rb.brief()));
        }
        let chk = Check::Same { a: a.clone(), b: b.clone(), messages: true, allow_both_fail: both_fail };
        if let Err(why) = chk.eval() {
            fixed.violation(Violation { sig: format!("c09:context:{}", tag), what: format!("[{}] `{}`: {}", tag, a.replace('\n', " | "), why), replay: chk.to_json() });
        }
    }
    for (tag, prog) in many_call_programs() {
        fixed.eval();
        fixed.class("many-calls-leg");
        let text = render(&prog, Style::CANON).text;
        fixed.nt(fp(&text));
        match model::assemble(&prog, &opts).0 {
            Expect::Ok(img) => {
                let chk = Check::Image { src: text.clone(), code: Some(img.code), eeprom: Some(img.eeprom), ram_filling: Some(img.ram_filling), sizes: None, messages: None };
                if let Err(why) = chk.eval() {
                    fixed.violation(Violation { sig: format!("c09:many-calls:{}", if why.contains("Err(") { "rejected" } else { "differs" }), what: format!("[{}] {}", tag, why), replay: chk.to_json() });
                }
            }
            other => return Err(format!("C09 many-calls leg {} not valid for the model: {:?}", tag, other)),
        }
    }
    let shards = 32usize;
    let per = (if ctx.thorough { 1_000_000 } else { 80_000 } / shards) as u32;
    let seed = ctx.seed;
    let mut total = par::run_shards("C09", shards, |s| par::prop_shard("C09", seed, s, per, &raw_macros(), |c, ev| test(c, ev, &opts)));
    total.merge(fixed);
    if total.has_violation() {
        return Ok(total);
    }
    if let Some((k, n)) = total.classes.iter().find(|(k, _)| k.starts_with("harness-inconsistent")) {
        return Err(format!("C09 hand expansion and model disagree in {} cases: {}", n, k));
    }
    if total.discarded * 10 > total.evaluations {
        let k = total.classes.keys().find(|k| k.starts_with("generator-imprecise")).cloned().unwrap_or_default();
        return Err(format!("generator unsound: {} of {} programs invalid, e.g. {}", total.discarded, total.evaluations, k));
    }
    for required in ["non-atomic-expression-argument", "segment-excursion-in-body", "segment-excursion-as-last-lines", "nested-call", "definition-and-call-names-differ-in-case", "call-before-definition", "conditional-in-body", "must-fail:undefined-macro", "must-fail:missing-argument"] {
        if !total.has_violation() && total.classes.get(required).copied().unwrap_or(0) == 0 {
            return Err(format!("generator degenerate: class {} never produced", required));
        }
    }
    Ok(total)
}

pub fn rule() -> String {
    "proptest: 1–4 macro definitions (name in a generated letter case, 0–10 typed parameters), bodies of 1–6 templates: instructions with @n as register / pointer form / Y+q form / whole expression operand / atom inside a larger expression, .db/.dw/.dq over @n, .if @n … .else, calls of earlier macros passing @n and expressions over @n, .dseg/.eseg excursions (also as the last lines of the body), labels made unique with a numeric parameter; 1–6 calls (name in another letter case, before and after the definitions) with registers, all nine pointer forms, Y/Z+q, generated expression trees (parenthesised where embedded). Deterministic context legs (macro form vs hand-expanded text): origins set by a body (.org only, leading, trailing, between items, in data/EEPROM excursions, through a nested call, back to the start of the caller's block), definitions inside taken/untaken conditionals closed with .endm or .endmacro, comment characters inside literals of a body, the moment a conditional of the body is decided, calls made in .dseg/.eseg. Legs: call of an undefined macro, call lacking an argument the body uses (must fail). Oracle: tool(program with macros) == tool(hand-expanded program) == reference model. Non-trivial = a non-atomic expression argument, a body with a segment excursion, a nested call, definition/call names differing in case, or a must-fail leg; distinct = distinct program text".into()
}
