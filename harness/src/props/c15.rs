//! C15 — a failed build names the offending line; messages are kept in order.

use crate::evidence::{fp, Ev, Violation};
use crate::gen;
use crate::oracle::{has_token, Check};
use crate::par;
use crate::run::{build, Outcome};
use crate::Ctx;
use proptest::prelude::*;
use serde_json::json;

pub const FAULTS: &[(&str, &str)] = &[
    ("syntax-error", "this is ((not assembly"),
    ("unknown-mnemonic-or-macro", "frobnicate r1, r2"),
    ("operand-of-wrong-kind", "mov r1, 7"),
    ("operand-of-wrong-kind-2", "ldi 5, r16"),
    ("immediate-out-of-range", "ldi r16, 70000"),
    ("undefined-symbol-in-instruction", "ldi r16, undefined_sym_q"),
    ("undefined-symbol-in-data-directive", ".dw 1, undefined_sym_q"),
    ("undefined-symbol-in-set", ".set sv_q = undefined_sym_q + 1"),
    ("undefined-symbol-in-if", ".if undefined_sym_q"),
    ("duplicate-label", ""),
    ("value-out-of-range-in-data-directive", ".db 1, 70000"),
    ("branch-out-of-range", "brne pc + 5000"),
    ("undefined-macro-with-label", "here_q: frobnicate"),
    // the same kinds of fault while another segment is current (\u{1} marks the fault line)
    ("undefined-symbol-in-set-inside-dseg", ".dseg\n\u{1}.set sv_q = undefined_sym_q\n.cseg"),
    ("undefined-symbol-in-data-directive-inside-eseg", ".eseg\n.db 1\n\u{1}.dw undefined_sym_q\n.cseg"),
    ("instruction-inside-dseg", ".dseg\n\u{1}nop\n.cseg"),
    ("undefined-symbol-in-elif", ".if 0\nnop\n\u{1}.elif undefined_sym_q\nnop\n.endif"),
    ("undef-of-unknown-alias", ".def al_q = r20\n.undef al_q\n\u{1}.undef al_q"),
    // an undefined symbol where its value cannot influence the result
    ("undefined-symbol-right-of-decided-logical-and", "ldi r16, 0 && undefined_sym_q"),
    ("undefined-symbol-right-of-decided-logical-or", ".db 1 || undefined_sym_q, 2"),
    ("undefined-symbol-times-zero", ".dw 0 * undefined_sym_q"),
    ("undefined-symbol-inside-function", "ldi r16, low(undefined_sym_q)"),
    ("undefined-symbol-in-set-right-of-decided-operator", ".set sw_q = 0 && undefined_sym_q"),
    ("undefined-symbol-in-if-right-of-decided-operator", "\u{1}.if 1 || undefined_sym_q\nnop\n.endif"),
    ("undefined-symbol-in-second-operand", "out undefined_sym_q, r16"),
    ("undefined-symbol-in-displacement", "ldd r16, Y+undefined_sym_q"),
    // duplicate labels that bind the same address (nothing is emitted between them)
    ("duplicate-label-adjacent", "\u{1}dup_q:\n\u{1}Dup_Q:\nnop"),
    ("duplicate-label-same-address", "\u{1}dupb_q: .equ dq_q = 1\n; nothing emitted here\n.message \"between\"\n\u{1}dupb_q: nop"),
    ("duplicate-label-in-dseg", ".dseg\n\u{1}dupc_q: .byte 0\n\u{1}dupc_q: .byte 1\n.cseg"),
];

#[derive(Clone, Debug)]
pub struct FaultCase {
    pub lines: Vec<(u8, u8)>,
    pub fault: usize,
    pub pos: u16,
    pub shift: u8,
    pub crlf: bool,
}

pub fn fault_case() -> impl Strategy<Value = FaultCase> {
    (proptest::collection::vec((any::<u8>(), 0u8..100), 20..60), 0usize..FAULTS.len(), any::<u16>(), 1u8..60, any::<bool>()).prop_map(|(lines, fault, pos, shift, crlf)| FaultCase { lines, fault, pos, shift, crlf })
}

/// One valid line; every number in it is below 100 and every line is short, so neither a literal
/// nor a column number in a parse error can be mistaken for the three-digit line number.
fn valid_line(t: u8, a: u8, i: usize, labels: &mut Vec<String>) -> Vec<String> {
    match t % 12 {
        0 | 1 => vec!["nop".into()],
        2 => vec![format!("ldi r16, {}", a)],
        3 => {
            let l = format!("lb{}x", labels.len());
            labels.push(l.clone());
            vec![format!("{}: nop", l)]
        }
        4 => vec![format!(".dw {}, {}", a, (a as usize * 7) % 100)],
        5 => vec![match a % 4 {
            0 => "; just a comment".into(),
            // comments that end in characters some tools read as "the line goes on"
            1 => "; table in c:\\dir\\".to_string(),
            2 => "nop ; ends with a backslash \\".to_string(),
            _ => "// ends with a comma,".to_string(),
        }],
        6 => vec![String::new()],
        7 => vec![format!(".equ eq{}x = {}", i, a)],
        8 => vec![format!(".set sv{}x = {}", i % 3, a)],
        9 => vec![".if 1".into(), format!("mov r{}, r{}", a % 32, (a / 3) % 32), ".endif".into()],
        10 => vec![".if 0".into(), "garbage ((".into(), ".else".into(), "inc r5".into(), ".endif".into()],
        _ => match labels.last() {
            Some(l) => vec![format!("rjmp {}", l)],
            None => vec!["wdr".into()],
        },
    }
}

pub struct BuiltFault {
    pub lines: Vec<String>,
    /// acceptable 1-based line numbers for the error
    pub expect_lines: Vec<usize>,
    pub kind: &'static str,
    pub same_kind_elsewhere: bool,
}

pub fn build_fault(c: &FaultCase) -> BuiltFault {
    let mut labels = vec![];
    let mut lines: Vec<String> = vec![];
    // padding so that the fault line has three digits
    for _ in 0..100 {
        lines.push(if lines.len() % 3 == 0 { "nop".into() } else { String::new() });
    }
    let mut body: Vec<Vec<String>> = vec![];
    for (i, (t, a)) in c.lines.iter().enumerate() {
        body.push(valid_line(*t, *a, i, &mut labels));
    }
    let at = gen::idx(c.pos, body.len().saturating_sub(2)) + 1; // not first, not last
    let (kind, text) = FAULTS[c.fault];
    let mut expect = vec![];
    let mut first_def_line = None;
    for (i, group) in body.iter().enumerate() {
        if i == at {
            if kind == "duplicate-label" {
                // the label of the first labelled line is defined again here
                match labels.first() {
                    Some(l) => {
                        lines.push(format!("{}: nop", l.to_uppercase()));
                    }
                    None => {
                        lines.push("solo_q: nop".into());
                        first_def_line = Some(lines.len());
                        lines.push("Solo_Q: nop".into());
                    }
                }
                expect.push(lines.len());
            } else if text.contains('\n') {
                for part in text.split('\n') {
                    match part.strip_prefix('\u{1}') {
                        Some(f) => {
                            lines.push(f.to_string());
                            expect.push(lines.len());
                        }
                        None => lines.push(part.to_string()),
                    }
                }
            } else {
                lines.push(text.to_string());
                expect.push(lines.len());
                if kind == "undefined-symbol-in-if" {
                    lines.push("nop".into());
                    lines.push(".endif".into());
                }
            }
        }
        for l in group {
            lines.push(l.clone());
        }
    }
    if kind == "duplicate-label" {
        if let Some(l) = labels.first() {
            let needle = format!("{}: nop", l);
            if let Some(i) = lines.iter().position(|x| x == &needle) {
                first_def_line = Some(i + 1);
            }
        }
        if let Some(f) = first_def_line {
            expect.push(f);
        }
    }
    // is there another line of the same kind elsewhere (instruction / data / set / if / label)?
    let family = |s: &str| -> &'static str {
        if s.starts_with(".dw") || s.starts_with(".db") {
            "data"
        } else if s.starts_with(".set") {
            "set"
        } else if s.starts_with(".if") {
            "if"
        } else if s.contains(':') {
            "label"
        } else if s.starts_with('.') || s.is_empty() || s.starts_with(';') {
            "other"
        } else {
            "instruction"
        }
    };
    let fam = family(if kind == "duplicate-label" { "x: nop" } else { text });
    let same_kind_elsewhere = lines.iter().enumerate().filter(|(i, l)| !expect.contains(&(i + 1)) && family(l) == fam).count() > 0;
    BuiltFault { lines, expect_lines: expect, kind, same_kind_elsewhere }
}

fn join(lines: &[String], crlf: bool) -> String {
    lines.join(if crlf { "\r\n" } else { "\n" })
}

pub fn test_fault(c: &FaultCase, ev: &mut Ev) -> Result<(), Violation> {
    ev.eval();
    let b = build_fault(c);
    let text = join(&b.lines, c.crlf);
    ev.class(&format!("fault:{}", b.kind));
    if b.same_kind_elsewhere {
        ev.nt(fp(&text));
    }
    // control: without the fault line(s) the program is valid
    if ev.evaluations % 16 == 1 {
        let mut ok_lines = b.lines.clone();
        let n = b.expect_lines[0];
        ok_lines[n - 1] = String::new();
        if b.kind == "undefined-symbol-in-if" || b.kind == "undefined-symbol-in-if-right-of-decided-operator" {
            ok_lines[n + 1] = String::new();
        }
        let ctrl = join(&ok_lines, c.crlf);
        if !build(&ctrl).is_ok() {
            ev.discarded += 1;
            ev.class("control-program-invalid");
            return Ok(());
        }
        ev.class("control-program-valid");
    }
    if ev.samples.len() < 2 {
        ev.samples.push(json!({"fault": b.kind, "fault_line": b.expect_lines, "excerpt": b.lines[b.expect_lines[0].saturating_sub(3)..(b.expect_lines[0] + 2).min(b.lines.len())].to_vec()}));
    }
    let check = |text: &str, want: &[usize], variant: &str| -> Result<(), Violation> {
        match build(text) {
            Outcome::Err(e) => {
                if want.iter().any(|n| has_token(&e, &n.to_string())) {
                    Ok(())
                } else {
                    Err(Violation {
                        sig: format!("c15:{}:line-not-named", b.kind),
                        what: format!("[{}] fault `{}` on line {:?}, error text: {}", variant, b.lines[want[0] - 1 - if variant == "shifted" { 0 } else { 0 }].trim(), want, crate::run::truncate(&e, 300)),
                        replay: json!({"kind": "error_names_line", "src": text, "lines": want}),
                    })
                }
            }
            o => Err(Violation { sig: format!("c15:{}:{}", b.kind, if o.is_panic() { "panic" } else { "accepted" }), what: format!("[{}] fault on line {:?}: {}", variant, want, o.brief()), replay: Check::MustFail { src: text.to_string(), token: None }.to_json() }),
        }
    };
    check(&text, &b.expect_lines, "original")?;
    // the same program with k blank lines inserted above: the number must move with the line
    let k = c.shift as usize;
    let mut shifted: Vec<String> = vec![String::new(); k];
    shifted.extend(b.lines.iter().cloned());
    let want: Vec<usize> = b.expect_lines.iter().map(|n| n + k).collect();
    let stext = join(&shifted, c.crlf);
    match build(&stext) {
        Outcome::Err(e) => {
            if !want.iter().any(|n| has_token(&e, &n.to_string())) {
                return Err(Violation { sig: format!("c15:{}:line-not-named", b.kind), what: format!("[shifted by {}] fault on line {:?}, error text: {}", k, want, crate::run::truncate(&e, 300)), replay: json!({"kind": "error_names_line", "src": stext, "lines": want}) });
            }
        }
        o => return Err(Violation { sig: format!("c15:{}:{}", b.kind, if o.is_panic() { "panic" } else { "accepted" }), what: format!("[shifted] {}", o.brief()), replay: Check::MustFail { src: stext, token: None }.to_json() }),
    }
    // the same text (blank lines at its top included) as a file: as the main file, and as a file
    // included from the second line of another one — the number is the line's number in its own file
    if ev.evaluations % 4 == 2 {
        ev.class("fault-in-a-file");
        let dir = crate::run::scratch_dir().join(format!("c15-{:?}", std::thread::current().id()).replace(['(', ')'], "_"));
        let _ = std::fs::create_dir_all(&dir);
        let main = dir.join("main.asm");
        let outer = dir.join("outer.asm");
        let _ = std::fs::write(&main, &stext);
        let _ = std::fs::write(&outer, "nop\n.include \"main.asm\"\nnop\n");
        for (variant, path) in [("main-file", &main), ("included-file", &outer)] {
            match crate::run::build_file(path.clone(), Default::default()) {
                Outcome::Err(e) => {
                    // the scratch path itself contains digits: look at the text without it
                    let e2 = e.replace(&dir.to_string_lossy().to_string(), "<dir>");
                    if !want.iter().any(|n| has_token(&e2, &n.to_string())) {
                        return Err(Violation { sig: format!("c15:{}:line-not-named:{}", b.kind, variant), what: format!("[{} with {} blank lines at its top] fault on line {:?}, error text: {}", variant, k, want, crate::run::truncate(&e2, 300)), replay: json!({"kind": "error_names_line_in_file", "src": stext, "lines": want, "included": variant == "included-file"}) });
                    }
                }
                o => return Err(Violation { sig: format!("c15:{}:{}:{}", b.kind, if o.is_panic() { "panic" } else { "accepted" }, variant), what: format!("[{}] {}", variant, o.brief()), replay: json!({"kind": "error_names_line_in_file", "src": stext, "lines": want, "included": variant == "included-file"}) }),
            }
        }
    }
    Ok(())
}

#[derive(Clone, Debug)]
pub struct MsgCase {
    pub items: Vec<(u8, u8)>,
    pub error_at: Option<u16>,
    pub crlf: bool,
}

pub fn msg_case() -> impl Strategy<Value = MsgCase> {
    (proptest::collection::vec((any::<u8>(), any::<u8>()), 4..40), proptest::option::weighted(0.3, any::<u16>()), any::<bool>()).prop_map(|(items, error_at, crlf)| MsgCase { items, error_at, crlf })
}

pub struct BuiltMsg {
    pub with: Vec<String>,
    pub without: Vec<String>,
    /// (substring, line) of each assembled message in order
    pub expect: Vec<(String, usize)>,
    pub error_assembled: bool,
    pub in_taken: bool,
    pub in_untaken: bool,
}

pub fn build_msg(c: &MsgCase) -> BuiltMsg {
    let mut with: Vec<String> = vec![];
    let mut without: Vec<String> = vec![];
    let mut expect = vec![];
    let mut n = 0usize;
    let (mut in_taken, mut in_untaken) = (false, false);
    let err_idx = c.error_at.map(|e| gen::idx(e, c.items.len()));
    let mut error_assembled = false;
    let mut push = |w: &mut Vec<String>, wo: &mut Vec<String>, line: String, is_msg: bool| {
        w.push(line.clone());
        wo.push(if is_msg { String::new() } else { line });
    };
    for (i, (t, a)) in c.items.iter().enumerate() {
        let mut msg = |kind: &str, assembled: bool, w: &mut Vec<String>, wo: &mut Vec<String>, expect: &mut Vec<(String, usize)>| {
            n += 1;
            // texts carry what a scanner of the line could mistake for something else: quotes of the other
            // kind, comment characters, brackets, commas, a backslash, banners of operator characters
            let decor: String = match (n + *a as usize) % 16 {
                1 => " it's".into(),
                2 => " ; semi".into(),
                3 => " // slashes".into(),
                4 => " /* c */".into(),
                5 => " 100% (done".into(),
                6 => format!(" don't {}", "-".repeat(130 + *a as usize % 40)),
                7 => format!(" {}", "=".repeat(135 + *a as usize % 40)),
                8 => format!(" 'q {}", "*+".repeat(70 + *a as usize % 20)),
                9 => " back\\slash \\".into(),
                10 => " a,b , c".into(),
                11 => " @0 @1 .endif .endm".into(),
                12 => format!(" ((((( {}", "<>".repeat(80)),
                _ => String::new(),
            };
            let text = format!("note n{}x a{}x{}", n, a, decor);
            let (dir, pre) = if kind == "w" { (".warning", "warning") } else { (".message", "info") };
            push(w, wo, format!("{} \"{}\"", dir, text), true);
            if assembled {
                expect.push((format!("{}: {}", pre, text), w.len()));
            }
        };
        if Some(i) == err_idx {
            // .error at top level, in a taken or in an untaken arm
            match t % 5 {
                3 => {
                    // .error in the body of a macro that is called
                    push(&mut with, &mut without, ".macro em_q".into(), false);
                    push(&mut with, &mut without, ".if @0 > 10".into(), false);
                    push(&mut with, &mut without, ".error \"stop in macro\"".into(), true);
                    push(&mut with, &mut without, ".endif".into(), false);
                    push(&mut with, &mut without, "nop".into(), false);
                    push(&mut with, &mut without, ".endm".into(), false);
                    push(&mut with, &mut without, format!("em_q {}", 11 + a % 50), false);
                    error_assembled = true;
                }
                4 => {
                    // the same macro, called so that its .error is not assembled
                    push(&mut with, &mut without, ".macro em_q".into(), false);
                    push(&mut with, &mut without, ".if @0 > 10".into(), false);
                    push(&mut with, &mut without, ".error \"never in macro\"".into(), true);
                    push(&mut with, &mut without, ".endif".into(), false);
                    push(&mut with, &mut without, "nop".into(), false);
                    push(&mut with, &mut without, ".endm".into(), false);
                    push(&mut with, &mut without, format!("em_q {}", a % 10), false);
                }
                0 => {
                    push(&mut with, &mut without, ".error \"stop here\"".into(), true);
                    error_assembled = true;
                }
                1 => {
                    push(&mut with, &mut without, ".if 1".into(), false);
                    push(&mut with, &mut without, ".error \"stop here\"".into(), true);
                    push(&mut with, &mut without, ".endif".into(), false);
                    error_assembled = true;
                }
                _ => {
                    push(&mut with, &mut without, ".if 0".into(), false);
                    push(&mut with, &mut without, ".error \"never\"".into(), true);
                    push(&mut with, &mut without, ".else".into(), false);
                    push(&mut with, &mut without, "nop".into(), false);
                    push(&mut with, &mut without, ".endif".into(), false);
                }
            }
            continue;
        }
        match t % 10 {
            0 => msg("m", true, &mut with, &mut without, &mut expect),
            1 => msg("w", true, &mut with, &mut without, &mut expect),
            2 => {
                in_taken = true;
                push(&mut with, &mut without, format!(".if {}", 1 + a % 5), false);
                msg(if a & 1 == 0 { "m" } else { "w" }, true, &mut with, &mut without, &mut expect);
                push(&mut with, &mut without, format!(".dw {}", a), false);
                push(&mut with, &mut without, ".else".into(), false);
                msg("m", false, &mut with, &mut without, &mut expect);
                push(&mut with, &mut without, ".endif".into(), false);
            }
            3 => {
                in_untaken = true;
                push(&mut with, &mut without, ".if 0".into(), false);
                msg("w", false, &mut with, &mut without, &mut expect);
                push(&mut with, &mut without, ".elif 1".into(), false);
                msg("m", true, &mut with, &mut without, &mut expect);
                push(&mut with, &mut without, ".else".into(), false);
                msg("m", false, &mut with, &mut without, &mut expect);
                push(&mut with, &mut without, ".endif".into(), false);
            }
            4 if a & 1 == 0 => {
                // a negative condition is true; a nested .ifndef inside an untaken arm stays hidden
                in_taken = true;
                in_untaken = true;
                push(&mut with, &mut without, format!(".if {}", ["-1", "0-3", "2-5", "~0"][(*a as usize / 2) % 4]), false);
                msg("m", true, &mut with, &mut without, &mut expect);
                push(&mut with, &mut without, ".else".into(), false);
                push(&mut with, &mut without, ".ifndef never_defined_flag".into(), false);
                msg("w", false, &mut with, &mut without, &mut expect);
                push(&mut with, &mut without, ".endif".into(), false);
                msg("m", false, &mut with, &mut without, &mut expect);
                push(&mut with, &mut without, ".endif".into(), false);
            }
            4 => push(&mut with, &mut without, format!("ldi r{}, {}", 16 + a % 16, a), false),
            5 => push(&mut with, &mut without, format!("lm{}: .db {}, \"x\"", i, a), false),
            6 => push(&mut with, &mut without, String::new(), false),
            7 => {
                push(&mut with, &mut without, ".eseg".into(), false);
                msg("m", true, &mut with, &mut without, &mut expect);
                push(&mut with, &mut without, format!(".db {}", a), false);
                push(&mut with, &mut without, ".cseg".into(), false);
            }
            8 => push(&mut with, &mut without, "; comment".into(), false),
            _ => push(&mut with, &mut without, "nop".into(), false),
        }
    }
    BuiltMsg { with, without, expect, error_assembled, in_taken, in_untaken }
}

pub fn test_msg(c: &MsgCase, ev: &mut Ev) -> Result<(), Violation> {
    ev.eval();
    let b = build_msg(c);
    let with = join(&b.with, c.crlf);
    let without = join(&b.without, c.crlf);
    ev.class("messages");
    if b.in_taken {
        ev.class("message-in-taken-arm");
    }
    if b.in_untaken {
        ev.class("message-in-untaken-arm");
    }
    if b.expect.len() >= 2 && (b.in_taken || b.in_untaken) {
        ev.nt(fp(&with));
    }
    if b.error_assembled {
        ev.class("error-directive-assembled");
        ev.nt(fp(&with));
        let chk = Check::MustFail { src: with, token: None };
        return chk.eval().map_err(|why| Violation { sig: "c15:error-directive:accepted".into(), what: why, replay: chk.to_json() });
    }
    if c.error_at.is_some() {
        ev.class("error-directive-in-untaken-arm");
    }
    let wo = match build(&without) {
        Outcome::Ok(b) => b,
        _ => {
            ev.discarded += 1;
            return Ok(());
        }
    };
    if ev.samples.len() < 3 {
        ev.samples.push(json!({"program": with, "expected_messages": b.expect.iter().map(|(t, l)| format!("{} … line {}", t, l)).collect::<Vec<_>>()}));
    }
    let msgs: Vec<String> = b.expect.iter().map(|(t, _)| t.clone()).collect();
    let chk = Check::Image { src: with.clone(), code: Some(wo.code.clone()), eeprom: Some(wo.eeprom.clone()), ram_filling: Some(wo.ram_filling), sizes: None, messages: Some(msgs) };
    chk.eval().map_err(|why| Violation { sig: format!("c15:messages:{}", if why.contains("message") { "list" } else { "image-changed" }), what: why, replay: chk.to_json() })?;
    // each message carries its own line number
    if let Outcome::Ok(r) = build(&with) {
        for (got, (t, line)) in r.messages.iter().zip(b.expect.iter()) {
            if !has_token(got, &line.to_string()) {
                return Err(Violation { sig: "c15:messages:line".into(), what: format!("message {:?} should carry line {} (text {:?})", got, line, t), replay: json!({"kind": "message_lines", "src": with, "expect": b.expect.iter().map(|(t, l)| json!([t, l])).collect::<Vec<_>>()}) });
            }
        }
    }
    Ok(())
}

pub fn replay(v: &serde_json::Value) -> Option<Result<(), String>> {
    match v.get("kind")?.as_str()? {
        "error_names_line" => {
            let src = v.get("src")?.as_str()?;
            let lines: Vec<u64> = v.get("lines")?.as_array()?.iter().filter_map(|x| x.as_u64()).collect();
            Some(match build(src) {
                Outcome::Err(e) => {
                    if lines.iter().any(|n| has_token(&e, &n.to_string())) {
                        Ok(())
                    } else {
                        Err(format!("error text does not name line {:?}: {}", lines, e))
                    }
                }
                o => Err(format!("expected an error value, got {}", o.brief())),
            })
        }
        "message_lines" => {
            let src = v.get("src")?.as_str()?;
            let exp = v.get("expect")?.as_array()?;
            Some(match build(src) {
                Outcome::Ok(r) => {
                    let mut res = Ok(());
                    for (got, e) in r.messages.iter().zip(exp) {
                        let line = e.get(1).and_then(|x| x.as_u64()).unwrap_or(0);
                        if !has_token(got, &line.to_string()) {
                            res = Err(format!("message {:?} should carry line {}", got, line));
                        }
                    }
                    res
                }
                o => Err(format!("expected a successful build, got {}", o.brief())),
            })
        }
        "error_names_line_in_file" => {
            let src = v.get("src")?.as_str()?;
            let want: Vec<u64> = v.get("lines")?.as_array()?.iter().filter_map(|x| x.as_u64()).collect();
            let dir = crate::run::scratch_dir().join("c15-replay");
            let _ = std::fs::create_dir_all(&dir);
            let _ = std::fs::write(dir.join("main.asm"), src);
            let _ = std::fs::write(dir.join("outer.asm"), "nop\n.include \"main.asm\"\nnop\n");
            let path = dir.join(if v.get("included").and_then(|x| x.as_bool()).unwrap_or(false) { "outer.asm" } else { "main.asm" });
            Some(match crate::run::build_file(path, Default::default()) {
                Outcome::Err(e) => {
                    let e2 = e.replace(&dir.to_string_lossy().to_string(), "<dir>");
                    if want.iter().any(|n| has_token(&e2, &n.to_string())) {
                        Ok(())
                    } else {
                        Err(format!("error text does not name line {:?}: {}", want, e2))
                    }
                }
                o => Err(format!("expected an error value, got {}", o.brief())),
            })
        }
        "message_orders" => {
            let src = v.get("src")?.as_str()?;
            let orders = v.get("orders")?.as_array()?.clone();
            Some(match build(src) {
                Outcome::Ok(r) => {
                    let fits = orders.iter().any(|o| {
                        let o = o.as_array().cloned().unwrap_or_default();
                        o.len() == r.messages.len() && r.messages.iter().zip(o.iter()).all(|(g, e)| g.contains(e.get(0).and_then(|x| x.as_str()).unwrap_or("\u{0}")) && has_token(g, &e.get(1).and_then(|x| x.as_u64()).unwrap_or(0).to_string()))
                    });
                    if fits {
                        Ok(())
                    } else {
                        Err(format!("messages {:?} are in none of the accepted orders", r.messages))
                    }
                }
                o => Err(format!("expected a successful build, got {}", o.brief())),
            })
        }
        _ => None,
    }
}

pub fn run(ctx: &Ctx) -> Result<Ev, String> {
    let shards = 32usize;
    let per = (if ctx.thorough { 20 } else { 4 } * 18_000 / shards) as u32;
    let per_m = (if ctx.thorough { 20 } else { 4 } * 8_000 / shards) as u32;
    let seed = ctx.seed;
    let mut total = par::run_shards("C15", shards, |s| par::prop_shard("C15", seed, s, per, &fault_case(), |c, ev| test_fault(c, ev)));
    let m = par::run_shards("C15", shards, |s| par::prop_shard("C15", seed, 1000 + s, per_m, &msg_case(), |c, ev| test_msg(c, ev)));
    total.merge(m);
    // messages issued from macro bodies: "source order" can be read as the order of the lines in the
    // text or as the order in which the lines are assembled (the call's position); both are accepted,
    // anything else is not an order of the source at all
    for (tag, src, textual, assembled) in [
        ("defined-before-use", ".macro c15m\n.message \"in macro\"\nnop\n.endm\n.message \"first\"\nc15m\n.message \"last\"\n", vec![("in macro", 2), ("first", 5), ("last", 7)], vec![("first", 5), ("in macro", 2), ("last", 7)]),
        ("called-twice", ".macro c15m\n.warning \"in macro\"\nnop\n.endm\n.message \"first\"\nc15m\n.message \"middle\"\nc15m\n.message \"last\"\n", vec![("in macro", 2), ("in macro", 2), ("first", 5), ("middle", 7), ("last", 9)], vec![("first", 5), ("in macro", 2), ("middle", 7), ("in macro", 2), ("last", 9)]),
        ("defined-after-use", ".message \"first\"\nc15m\n.message \"last\"\n.macro c15m\n.message \"in macro\"\nnop\n.endm\n", vec![("first", 1), ("last", 3), ("in macro", 5)], vec![("first", 1), ("in macro", 5), ("last", 3)]),
        ("nested", ".macro c15i\n.message \"inner\"\n.endm\n.macro c15o\n.message \"outer a\"\nc15i\n.message \"outer b\"\n.endm\n.message \"first\"\nc15o\n.message \"last\"\n", vec![("inner", 2), ("outer a", 5), ("outer b", 7), ("first", 9), ("last", 11)], vec![("first", 9), ("outer a", 5), ("inner", 2), ("outer b", 7), ("last", 11)]),
    ] {
        total.eval();
        total.class("message-from-macro-body");
        total.nt(fp(&src));
        let fits = |msgs: &[String], want: &[(&str, u32)]| msgs.len() == want.len() && msgs.iter().zip(want).all(|(g, (t, l))| g.contains(t) && has_token(g, &l.to_string()));
        match build(src) {
            Outcome::Ok(r) => {
                if !fits(&r.messages, &textual) && !fits(&r.messages, &assembled) {
                    total.violation(Violation {
                        sig: "c15:messages:macro-body:order".into(),
                        what: format!("[{}] `{}` gives {:?}; neither the textual order {:?} nor the order of assembly {:?}", tag, src.replace('\n', " | "), r.messages, textual, assembled),
                        replay: json!({"kind": "message_orders", "src": src, "orders": [textual.iter().map(|(t, l)| json!([t, l])).collect::<Vec<_>>(), assembled.iter().map(|(t, l)| json!([t, l])).collect::<Vec<_>>()]}),
                    });
                }
            }
            o => total.violation(Violation { sig: "c15:messages:macro-body:rejected".into(), what: format!("[{}] {}", tag, o.brief()), replay: Check::MustBuild { src: src.to_string() }.to_json() }),
        }
    }
    // messages from macro bodies and from plain lines across segment switches: every macro is defined
    // immediately before its only call, so textual order and order of assembly are the same ascending
    // list of line numbers; sections change the segment (.dseg/.eseg/.cseg, forward .org in flash)
    {
        let n_sections = if ctx.thorough { 4 } else { 3 };
        let combos = 15usize.pow(n_sections as u32);
        let step = if ctx.thorough { 7 } else { 1 };
        let mut k = 0usize;
        while k < combos {
            let mut lines: Vec<String> = vec![];
            let mut want: Vec<(String, usize)> = vec![];
            let mut seg = 0u8; // 0 code 1 data 2 eeprom
            let mut x = k;
            let (mut switches, mut macro_msgs) = (0, 0);
            for i in 0..n_sections {
                let (sk, mk) = (x % 5, (x / 5) % 3);
                x /= 15;
                match sk {
                    1 => { lines.push(".dseg".into()); seg = 1; switches += 1; }
                    2 => { lines.push(".eseg".into()); seg = 2; switches += 1; }
                    3 => { lines.push(".cseg".into()); seg = 0; switches += 1; }
                    4 => { lines.push(".cseg".into()); lines.push(format!(".org {:#x}", 0x100 * (i + 1))); seg = 0; switches += 1; }
                    _ => {}
                }
                let item = ["nop", ".byte 1", ".db 1"][seg as usize];
                lines.push(format!(".message \"plain {}\"", i));
                want.push((format!("plain {}", i), lines.len()));
                if mk > 0 {
                    lines.push(format!(".macro c15s{}", i));
                    if mk == 1 {
                        lines.push(format!(".warning \"in macro {}\"", i));
                        want.push((format!("in macro {}", i), lines.len()));
                        macro_msgs += 1;
                    }
                    lines.push(item.to_string());
                    lines.push(".endm".into());
                    lines.push(format!("c15s{}", i));
                }
                lines.push(item.to_string());
            }
            lines.push(".message \"end\"".into());
            want.push(("end".into(), lines.len()));
            let src = lines.join("\n") + "\n";
            total.eval();
            total.class("messages-across-segments-and-macro-calls");
            if switches >= 1 && macro_msgs >= 1 {
                total.nt(fp(&src));
            }
            match build(&src) {
                Outcome::Ok(r) => {
                    let ok = r.messages.len() == want.len() && r.messages.iter().zip(&want).all(|(g, (t, l))| g.contains(t.as_str()) && has_token(g, &l.to_string()));
                    if !ok {
                        total.violation(Violation {
                            sig: "c15:messages:segments-and-macros:order".into(),
                            what: format!("`{}` gives {:?}; expected (ascending lines) {:?}", src.replace('\n', " | "), r.messages, want),
                            replay: json!({"kind": "message_orders", "src": src, "orders": [want.iter().map(|(t, l)| json!([t, l])).collect::<Vec<_>>()]}),
                        });
                        break;
                    }
                }
                o => {
                    total.violation(Violation { sig: "c15:messages:segments-and-macros:rejected".into(), what: format!("`{}`: {}", src.replace('\n', " | "), o.brief()), replay: Check::MustBuild { src: src.clone() }.to_json() });
                    break;
                }
            }
            k += step;
        }
    }
    if total.has_violation() {
        return Ok(total);
    }
    if total.classes.get("control-program-invalid").copied().unwrap_or(0) > 0 {
        return Err(format!("generator unsound: {} control programs (fault removed) do not build", total.classes["control-program-invalid"]));
    }
    for (k, _) in FAULTS {
        if total.classes.get(&format!("fault:{}", k)).copied().unwrap_or(0) == 0 {
            return Err(format!("generator degenerate: fault kind {} never produced", k));
        }
    }
    for required in ["message-in-taken-arm", "message-in-untaken-arm", "error-directive-assembled", "error-directive-in-untaken-arm", "control-program-valid"] {
        if total.classes.get(required).copied().unwrap_or(0) == 0 {
            return Err(format!("generator degenerate: class {} never produced", required));
        }
    }
    Ok(total)
}

pub fn rule() -> String {
    "fault leg: a valid program of 100 padding lines + 20–59 generated line groups (instructions, labels, data, .equ, .set, comments, blank lines, taken/untaken conditionals with garbage) in which every literal is below 100, so that the three-digit line number of the fault cannot occur otherwise; exactly one injected fault of 13 kinds (syntax error, unknown mnemonic/macro, operand of the wrong kind, immediate / data value / branch out of range, undefined symbol in an instruction / data directive / .set / .if, duplicate label) at a generated position, LF or CRLF; the error text must contain the line number as a stand-alone decimal token (either definition for a duplicate label) and, after k blank lines are inserted above, the number + k — through build_str and, for every fourth case, with that text as the main file of build_file and as a file included from another one; every 16th case also checks that the program without the fault builds. Message leg: .message/.warning at top level, in taken and untaken arms and in an EEPROM block, .error at top level / taken arm / untaken arm: images equal those of the program with the directives blanked, the message list has exactly the assembled ones in source order with their own line numbers, .error fails the build exactly when assembled; messages issued from macro bodies (defined before / after use, called twice, nested) must come in the textual order of their lines or in the order of assembly, with their own line numbers. Non-trivial = a fault with another line of the same family elsewhere in the program, a message program with ≥2 assembled messages and a conditional, or an assembled .error; distinct = distinct program text".into()
}
