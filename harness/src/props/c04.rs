//! C04 — operands the ISA cannot encode are rejected, never mis-encoded.
//!
//! Bounded-exhaustive negative space: every mnemonic × every register in every register
//! position × immediates / displacements / ports / bits / addresses in windows well beyond both
//! ends of the legal range × operand-kind confusions × operand-count confusions, on the default
//! core and on a reduced core.  Three-way oracle from `isa::assemble`:
//!   Legal   -> must build to exactly the reference words (control group)
//!   Illegal -> must be an error value (a panic is not an error value)
//!   Either  -> error value or exactly the natural encoding

use crate::evidence::{fp, Ev, Violation};
use crate::isa::{self, Core, Opd, PMode, Ptr, Verdict};
use crate::oracle::Check;
use crate::Ctx;
use rayon::prelude::*;
use serde_json::json;

#[derive(Clone, Debug)]
pub struct NCase {
    pub m: String,
    pub ops: Vec<Opd>,
    pub tag: &'static str,
    pub device: Option<&'static str>,
}

fn range(a: i64, b: i64) -> Vec<i64> {
    (a..=b).collect()
}

/// Baseline legal operand list per mnemonic (used as the frame for single-position deviations).
pub fn baseline(m: &str) -> Vec<Opd> {
    use Opd::*;
    if isa::TWO_REG.iter().any(|(n, _)| *n == m) {
        return vec![R(17), R(18)];
    }
    if isa::IMM.iter().any(|(n, _)| *n == m) {
        return vec![R(17), K(0x5a)];
    }
    if isa::ONE_REG.iter().any(|(n, _)| *n == m) || isa::ONE_REG_ALIAS.iter().any(|(n, _)| *n == m) || m == "ser" {
        return vec![R(17)];
    }
    if isa::IO_BIT.iter().any(|(n, _)| *n == m) {
        return vec![K(5), K(3)];
    }
    if isa::REG_BIT.iter().any(|(n, _)| *n == m) {
        return vec![R(17), K(3)];
    }
    if isa::FMUL.iter().any(|(n, _)| *n == m) || m == "muls" {
        return vec![R(17), R(18)];
    }
    if m.len() == 4 && m.starts_with("br") && m != "brbs" && m != "brbc" {
        return vec![K(1)];
    }
    match m {
        "adiw" | "sbiw" => vec![R(26), K(5)],
        "movw" => vec![R(16), R(18)],
        "rjmp" | "rcall" => vec![K(1)],
        "jmp" | "call" => vec![K(0x1234)],
        "brbs" | "brbc" => vec![K(3), K(1)],
        "bset" | "bclr" => vec![K(3)],
        "in" => vec![R(17), K(5)],
        "out" => vec![K(5), R(17)],
        "lds" => vec![R(17), K(0x60)],
        "sts" => vec![K(0x60), R(17)],
        "ld" => vec![R(17), P(Ptr::X, PMode::PostInc)],
        "st" => vec![P(Ptr::X, PMode::PostInc), R(17)],
        "ldd" => vec![R(17), Q(Ptr::Y, 5)],
        "std" => vec![Q(Ptr::Y, 5), R(17)],
        _ => vec![], // operand-less instructions, se*/cl*
    }
}

fn k_window(m: &str, pos: usize, wide: i64) -> Vec<i64> {
    let w = |a: i64, b: i64| range(a * wide, b * wide);
    if isa::IMM.iter().any(|(n, _)| *n == m) {
        return w(-400, 600);
    }
    if isa::IO_BIT.iter().any(|(n, _)| *n == m) {
        return if pos == 0 { w(-70, 140) } else { w(-10, 20) };
    }
    if isa::REG_BIT.iter().any(|(n, _)| *n == m) {
        return w(-10, 20);
    }
    let big: Vec<i64> = vec![-(1 << 40), -(1 << 31), -65536, 65536, 1 << 31, 1 << 40, i64::MAX, i64::MIN + 1];
    let rel = |lim: i64| {
        let mut v = vec![];
        for d in range(-lim - 8, -lim + 8).into_iter().chain(range(-3, 3)).chain(range(lim - 8, lim + 8)) {
            v.push(d + 1); // target = pc + 1 + d with pc = 0
        }
        v.extend(big.iter());
        v
    };
    if m.len() == 4 && m.starts_with("br") && m != "brbs" && m != "brbc" {
        return rel(64);
    }
    match m {
        "adiw" | "sbiw" | "in" | "out" => w(-70, 140),
        "bset" | "bclr" => w(-10, 20),
        "brbs" | "brbc" => {
            if pos == 0 {
                w(-10, 20)
            } else {
                rel(64)
            }
        }
        "rjmp" | "rcall" => rel(2048),
        "lds" | "sts" => {
            let mut v = vec![-2, -1, 0, 1, 0x3f, 0x40, 0x5f, 0x60, 0xbf, 0xc0, 0xff, 0x100, 0x7fff, 0x8000, 0xfffe, 0xffff, 0x10000, 0x10001, 1 << 22];
            v.extend(big.iter());
            v
        }
        "jmp" | "call" => {
            let mut v = vec![-2, -1, 0, 1, 0xffff, 0x10000, 0x1ffff, 0x20000, (1 << 22) - 1, 1 << 22, (1 << 22) + 1];
            v.extend(big.iter());
            v
        }
        _ => w(-10, 20),
    }
}

fn aliens() -> Vec<Opd> {
    use Opd::*;
    vec![
        R(5),
        R(20),
        R(31),
        K(0),
        K(3),
        K(-1),
        K(300),
        P(Ptr::X, PMode::Plain),
        P(Ptr::Y, PMode::PostInc),
        P(Ptr::Z, PMode::PreDec),
        P(Ptr::Z, PMode::Plain),
        P(Ptr::Z, PMode::PostInc),
        Q(Ptr::Y, 3),
        Q(Ptr::Z, 63),
        Q(Ptr::Z, 64),
        Q(Ptr::Y, -1),
        Q(Ptr::X, 1),
    ]
}

/// Values congruent to legal ones modulo 2^8, 2^16 and 2^32: a truncating cast placed before a
/// range check (`as u8`, `as i16`, …) makes them look legal.
fn wrap_twins(legal: &[i64]) -> Vec<i64> {
    let mut v = vec![];
    for l in legal {
        for m in [1i64 << 8, 1 << 16, 1 << 32] {
            for k in [-2i64, -1, 1, 2] {
                v.push(l + k * m);
            }
        }
    }
    v
}

pub fn cases(thorough: bool) -> Vec<NCase> {
    let wide = if thorough { 10 } else { 1 };
    let mut out: Vec<NCase> = vec![];
    let push = |out: &mut Vec<NCase>, m: &str, ops: Vec<Opd>, tag: &'static str| out.push(NCase { m: m.to_string(), ops, tag, device: None });
    for m in isa::all_mnemonics() {
        let base = baseline(&m);
        // (a) windows: one position varies over its whole window, the others over a few frame values
        for pos in 0..base.len() {
            let values: Vec<Opd> = match &base[pos] {
                Opd::R(_) => (0..32).map(Opd::R).collect(),
                Opd::K(_) => {
                    let w = k_window(&m, pos, wide);
                    // twins of the values of the window the reference accepts in this frame
                    let legal: Vec<i64> = w
                        .iter()
                        .copied()
                        .filter(|k| {
                            let mut ops = base.clone();
                            ops[pos] = Opd::K(*k);
                            !matches!(isa::assemble(&m, &ops, Core::Full, 0), Verdict::Illegal)
                        })
                        .collect();
                    let picks: Vec<i64> = if legal.len() > 6 { vec![legal[0], legal[1], legal[legal.len() / 2], legal[legal.len() - 2], legal[legal.len() - 1]] } else { legal };
                    w.into_iter().chain(wrap_twins(&picks)).map(Opd::K).collect()
                }
                Opd::P(_, _) => super::c01::PTR_FORMS.iter().map(|(p, mo)| Opd::P(*p, *mo)).collect(),
                Opd::Q(_, _) => [Ptr::X, Ptr::Y, Ptr::Z].iter().flat_map(|p| range(-70 * wide, 140 * wide).into_iter().map(move |q| Opd::Q(*p, q))).collect(),
            };
            // frame variants for the other positions: baseline, plus every register for register positions
            let mut frames: Vec<Vec<Opd>> = vec![base.clone()];
            for other in 0..base.len() {
                if other != pos {
                    if let Opd::R(_) = base[other] {
                        frames = (0..32)
                            .map(|r| {
                                let mut f = base.clone();
                                f[other] = Opd::R(r);
                                f
                            })
                            .collect();
                    }
                }
            }
            // register × register is already complete through the frames; K windows × 32 registers
            // only for the short windows (the 8-bit immediates get 4 representative registers)
            if values.len() > 500 && frames.len() > 4 {
                frames = [0usize, 15, 16, 31].iter().map(|i| frames[*i].clone()).collect();
            }
            for f in &frames {
                for v in &values {
                    let mut ops = f.clone();
                    ops[pos] = v.clone();
                    push(&mut out, &m, ops, "window");
                }
            }
        }
        // (b) operand-kind confusions
        for pos in 0..base.len() {
            for a in aliens() {
                if std::mem::discriminant(&a) == std::mem::discriminant(&base[pos]) {
                    continue;
                }
                let mut ops = base.clone();
                ops[pos] = a;
                push(&mut out, &m, ops, "kind");
            }
        }
        // (c) operand-count confusions
        if !base.is_empty() {
            push(&mut out, &m, vec![], "count-none");
            let mut short = base.clone();
            short.pop();
            if !short.is_empty() {
                push(&mut out, &m, short, "count-missing");
            }
            if base.len() == 2 {
                push(&mut out, &m, vec![base[1].clone()], "count-missing");
            }
        }
        for extra in [Opd::R(1), Opd::K(1), Opd::P(Ptr::Z, PMode::PostInc), Opd::Q(Ptr::Y, 2)] {
            let mut long = base.clone();
            long.push(extra.clone());
            push(&mut out, &m, long, "count-surplus");
            if base.is_empty() {
                push(&mut out, &m, vec![extra.clone(), Opd::R(2)], "count-surplus");
            }
        }
    }
    // lpm / elpm / spm operand forms
    for m in ["lpm", "elpm"] {
        for r in 0..32 {
            for (p, mo) in super::c01::PTR_FORMS {
                push(&mut out, m, vec![Opd::R(r), Opd::P(*p, *mo)], "window");
            }
            push(&mut out, m, vec![Opd::R(r), Opd::Q(Ptr::Z, 1)], "kind");
            push(&mut out, m, vec![Opd::R(r), Opd::K(0)], "kind");
            push(&mut out, m, vec![Opd::R(r)], "count-missing");
        }
        push(&mut out, m, vec![Opd::P(Ptr::Z, PMode::Plain)], "count-missing");
        push(&mut out, m, vec![Opd::K(0), Opd::P(Ptr::Z, PMode::Plain)], "kind");
    }
    // reduced core: one-word lds/sts
    for dev in ["ATtiny20"] {
        for r in 0..32u8 {
            for k in range(-10, 0x110).into_iter().chain([0x1000, 0xffff, 0x10000, -(1 << 31), 1 << 40]).chain(wrap_twins(&[0x40, 0x41, 0x7f, 0x80, 0xbe, 0xbf])) {
                out.push(NCase { m: "lds".into(), ops: vec![Opd::R(r), Opd::K(k)], tag: "avr8l", device: Some(dev) });
                out.push(NCase { m: "sts".into(), ops: vec![Opd::K(k), Opd::R(r)], tag: "avr8l", device: Some(dev) });
            }
        }
    }
    out
}

/// Texts that are not expressible as `Opd` values: register names beyond r31 etc.
pub fn raw_cases() -> Vec<(String, &'static str)> {
    let mut v = vec![];
    // number literals that do not fit 64 bits can never be an encodable operand
    for lit in ["0xFFFFFFFFFFFFFFFF", "0x8000000000000000", "$ffffffffffffffff", "0xFFFFFFFFFFFFFF80", "0xFFFFFFFFFFFF0040", "18446744073709551615", "9223372036854775808", "0x10000000000000005", "01777777777777777777777", "0b1111111111111111111111111111111111111111111111111111111111111111"] {
        for tpl in ["ldi r16, {}", "subi r20, {}", "cbr r17, {}", "adiw r24, {}", "in r1, {}", "out {}, r1", "sbi {}, 1", "sbi 1, {}", "sbrc r1, {}", "bset {}", "brbs {}, pc", "brne {}", "rjmp {}", "nop\nnop\nrcall {}", "jmp {}", "call {}", "lds r1, {}", "sts {}, r1", "ldd r1, Y+{}", "std Z+{}, r1", ".device ATtiny20\nlds r16, {}"] {
            v.push((tpl.replace("{}", lit), "literal-beyond-64-bits"));
        }
    }
    for r in ["r32", "r33", "r40", "r99", "R32", "r100", "r255"] {
        for (tpl, _) in [("mov {}, r1", 0), ("mov r1, {}", 0), ("ldi {}, 1", 0), ("inc {}", 0), ("ld {}, X", 0), ("st X+, {}", 0), ("in {}, 5", 0), ("lds {}, 0x60", 0), ("movw {}, r0", 0), ("sbrc {}, 1", 0)] {
            v.push((tpl.replace("{}", r), "bad-register-name"));
        }
    }
    v
}

/// Immediate / address operands written through a symbol, a sum or parentheses must be judged
/// exactly like the literal value (both ends of the legal range and one beyond each).
pub fn indirect_cases() -> Vec<(String, Verdict, String)> {
    let mut out = vec![];
    for m in isa::all_mnemonics() {
        let base = baseline(&m);
        for pos in 0..base.len() {
            if let Opd::K(_) = base[pos] {
                let w = k_window(&m, pos, 1);
                let legal: Vec<i64> = w
                    .iter()
                    .copied()
                    .filter(|k| {
                        let mut ops = base.clone();
                        ops[pos] = Opd::K(*k);
                        matches!(isa::assemble(&m, &ops, Core::Full, 0), Verdict::Legal(_))
                    })
                    .collect();
                if legal.is_empty() {
                    continue;
                }
                let (lo, hi) = (*legal.iter().min().unwrap(), *legal.iter().max().unwrap());
                for v in [lo - 1, lo, hi, hi + 1, lo - 256, hi + 256, hi + 65536] {
                    let mut ops = base.clone();
                    ops[pos] = Opd::K(v);
                    let verdict = isa::assemble(&m, &ops, Core::Full, 0);
                    let lit = |x: i64| if x < 0 { format!("(0-{})", -x) } else { format!("{}", x) };
                    for (form, text, prelude) in [
                        ("symbol", "kq_sym".to_string(), format!(".equ kq_sym = {}\n", lit(v))),
                        ("symbol-defined-later", "KQ_late".to_string(), String::new()),
                        ("sum", format!("{}+1", lit(v - 1)), String::new()),
                        ("parentheses", format!("(({}))", lit(v)), String::new()),
                        ("set-variable", "kq_set".to_string(), format!(".set kq_set = 0\n.set kq_set = {}\n", lit(v))),
                    ] {
                        let texts: Vec<String> = ops.iter().enumerate().map(|(i, o)| if i == pos { text.clone() } else { o.to_string() }).collect();
                        let tail = if form == "symbol-defined-later" { format!("\n.equ kq_late = {}", lit(v)) } else { String::new() };
                        out.push((format!("{}{} {}{}", prelude, m, texts.join(", "), tail), verdict.clone(), format!("{}:{}", m, form)));
                    }
                }
            }
        }
    }
    out
}

/// Registers written through a `.def` alias must be judged exactly like the literal register.
pub fn alias_cases() -> Vec<(String, Verdict, String)> {
    let mut out = vec![];
    for m in isa::all_mnemonics() {
        let base = baseline(&m);
        for pos in 0..base.len() {
            if let Opd::R(_) = base[pos] {
                for r in 0..32u8 {
                    let mut ops = base.clone();
                    ops[pos] = Opd::R(r);
                    let verdict = isa::assemble(&m, &ops, Core::Full, 0);
                    let texts: Vec<String> = ops.iter().enumerate().map(|(i, o)| if i == pos { "Al_q".to_string() } else { o.to_string() }).collect();
                    out.push((format!(".def al_q = r{}\n{} {}", r, m, texts.join(", ")), verdict, m.clone()));
                }
            }
        }
    }
    out
}

pub fn src_of(c: &NCase) -> String {
    let mut s = String::new();
    if let Some(d) = c.device {
        s.push_str(&format!(".device {}\n", d));
    }
    s.push_str(&c.m);
    if !c.ops.is_empty() {
        s.push(' ');
        s.push_str(&c.ops.iter().map(|o| o.to_string()).collect::<Vec<_>>().join(", "));
    }
    s
}

fn to_bytes(w: &[u16]) -> Vec<u8> {
    w.iter().flat_map(|x| [(*x & 0xff) as u8, (*x >> 8) as u8]).collect()
}

pub fn run(ctx: &Ctx) -> Result<Ev, String> {
    isa::self_test()?;
    let all = cases(ctx.thorough);
    let chunks: Vec<&[NCase]> = all.chunks(4096).collect();
    let parts: Vec<Ev> = chunks
        .par_iter()
        .enumerate()
        .map(|(ci, chunk)| {
            let mut ev = Ev::new("C04");
            for (i, c) in chunk.iter().enumerate() {
                ev.eval();
                let core = if c.device.is_some() { Core::Avr8l } else { Core::Full };
                let verdict = isa::assemble(&c.m, &c.ops, core, 0);
                let src = src_of(c);
                let (chk, class) = match &verdict {
                    Verdict::Legal(w) => (Check::image_code(src.clone(), to_bytes(w)), "legal"),
                    Verdict::Either(w) => (Check::FailOrImage { src: src.clone(), code: to_bytes(w) }, "convention-dependent"),
                    Verdict::Illegal => (Check::MustFail { src: src.clone(), token: None }, "illegal"),
                };
                ev.class(&format!("{}:{}", c.tag, class));
                if class == "illegal" {
                    ev.nt(fp(&(&c.m, &c.ops, c.device)));
                }
                if ci % 16 == 0 && i == 7 {
                    ev.samples.push(json!({"src": src, "verdict": class}));
                }
                if let Err(e) = chk.eval() {
                    let outcome = if e.contains("Panic(") || e.contains("panicked") {
                        "panic"
                    } else if class == "illegal" {
                        "accepted"
                    } else if e.contains("Err(") {
                        "legal-rejected"
                    } else {
                        "misencoded"
                    };
                    let dev = if c.device.is_some() { ":avr8l" } else { "" };
                    ev.violation(Violation { sig: format!("c04:{}{}:{}:{}", c.m, dev, c.tag, outcome), what: format!("`{}` ({}): {}", src.replace('\n', " | "), class, e), replay: chk.to_json() });
                }
            }
            ev
        })
        .collect();
    let mut total = Ev::new("C04");
    for p in parts {
        total.merge(p);
    }
    for (src, verdict, m) in alias_cases().into_iter().chain(indirect_cases()) {
        total.eval();
        let (chk, class) = match &verdict {
            Verdict::Legal(w) => (Check::image_code(src.clone(), to_bytes(w)), "legal"),
            Verdict::Either(w) => (Check::FailOrImage { src: src.clone(), code: to_bytes(w) }, "convention-dependent"),
            Verdict::Illegal => (Check::MustFail { src: src.clone(), token: None }, "illegal"),
        };
        total.class(&format!("alias:{}", class));
        if class == "illegal" {
            total.nt(fp(&src));
        }
        if let Err(e) = chk.eval() {
            let outcome = if e.contains("anic") { "panic" } else if class == "illegal" { "accepted" } else if e.contains("Err(") { "legal-rejected" } else { "misencoded" };
            total.violation(Violation { sig: format!("c04:{}:alias:{}", m, outcome), what: format!("`{}` ({}): {}", src.replace('\n', " | "), class, e), replay: chk.to_json() });
        }
    }
    // free-form leg: the byte decoder of the libFuzzer target `instr`, driven by the seeded PRNG
    {
        use proptest::prelude::RngCore;
        let n: u64 = if ctx.thorough { 8_000_000 } else { 800_000 };
        let parts: Vec<Ev> = (0..32u64)
            .into_par_iter()
            .map(|sh| {
                let mut rng = crate::par::rng_for(ctx.seed, "C04-free", sh);
                let mut ev = Ev::new("C04");
                for i in 0..n / 32 {
                    let mut buf = [0u8; 64];
                    rng.fill_bytes(&mut buf);
                    let c = crate::decode::instr_case(&mut crate::decode::Cur::new(&buf));
                    ev.eval();
                    let (class, r) = crate::fuzz::instr_c04(&c);
                    ev.class(&format!("free-form:{}", class));
                    if class == "illegal" {
                        ev.nt(fp(&(&c.m, &c.ops, c.pc, &c.spell)));
                    }
                    if sh == 0 && i < 3 {
                        ev.samples.push(json!({"src": c.source(None), "verdict": class}));
                    }
                    if let Err(v) = r {
                        ev.violation(v);
                    }
                }
                ev
            })
            .collect();
        for p in parts {
            total.merge(p);
        }
    }
    for (src, tag) in raw_cases() {
        total.eval();
        total.class(&format!("{}:illegal", tag));
        total.nt(fp(&src));
        let chk = Check::MustFail { src: src.clone(), token: None };
        if let Err(e) = chk.eval() {
            let outcome = if e.contains("Panic(") { "panic" } else { "accepted" };
            total.violation(Violation { sig: format!("c04:{}:{}", tag, outcome), what: format!("`{}`: {}", src, e), replay: chk.to_json() });
        }
    }
    Ok(total)
}

pub fn rule() -> String {
    "bounded-exhaustive: every mnemonic × (each operand position swept over its whole window: registers 0..31, immediates/ports/bits/displacements/addresses well beyond both ends of the legal range incl. negatives, every pointer form) × frames for the other positions, plus operand-kind and operand-count confusions, plus the reduced core, plus a seeded free-form leg (random operand lists of every kind, count and spelling at word addresses 0..5); non-trivial = the independent ISA reference judges the tuple un-encodable (must be rejected); distinct = distinct (mnemonic, operand list, device)".into()
}
