//! C07 — the Intel HEX files reproduce the images byte for byte at the right addresses.
//!
//! Arbitrary images are pushed through the real `write_code_hex` / `write_eeprom_hex` (their
//! argument, `BuildResult`, has public fields) and read back with the harness's own strict reader.

use crate::evidence::{fp, Ev, Violation};
use crate::ihex;
use crate::par;
use crate::run::scratch_dir;
use crate::Ctx;
use avra_lib::builder::BuildResult;
use avra_lib::writer::{write_code_hex, write_eeprom_hex};
use proptest::prelude::RngCore;
use rayon::prelude::*;
use serde_json::{json, Value};
use std::panic::{catch_unwind, AssertUnwindSafe};

#[derive(Clone, Debug)]
pub struct HexCase {
    pub len: usize,
    /// 0 = all zero, 1 = all 0xff, otherwise SplitMix64 stream seeded with this value
    pub fill: u64,
    pub eeprom: bool,
    /// length of the *other* image in the same BuildResult (both writers see both images)
    pub other_len: usize,
    /// which capacities the result reports (they must not matter to the writers): 0 = the documented
    /// defaults, 1 = all zero, 2 = all one, 3 = exactly the image lengths, n >= 4 = row (n - 4) of the device table
    pub sizes: u16,
}

/// (flash words, eeprom bytes, ram bytes) reported by the result of a case.
pub fn reported_sizes(c: &HexCase, code_len: usize, eeprom_len: usize) -> (u32, u32, u32) {
    match c.sizes {
        0 => (4194304, 65536, 8388608),
        1 => (0, 0, 0),
        2 => (1, 1, 1),
        3 => (((code_len + 1) / 2) as u32, eeprom_len as u32, 0),
        n => {
            let mut names: Vec<&&str> = avra_lib::device::DEVICES.keys().collect();
            names.sort();
            if names.is_empty() {
                return (4194304, 65536, 8388608);
            }
            let d = &avra_lib::device::DEVICES[*names[(n as usize - 4) % names.len()]];
            (d.flash_size, d.eeprom_size, d.ram_size)
        }
    }
}

fn splitmix(x: &mut u64) -> u64 {
    *x = x.wrapping_add(0x9e3779b97f4a7c15);
    let mut z = *x;
    z = (z ^ (z >> 30)).wrapping_mul(0xbf58476d1ce4e5b9);
    z = (z ^ (z >> 27)).wrapping_mul(0x94d049bb133111eb);
    z ^ (z >> 31)
}

pub fn image(c: &HexCase) -> Vec<u8> {
    match c.fill {
        0 => vec![0u8; c.len],
        1 => vec![0xffu8; c.len],
        s => {
            let mut st = s;
            let mut v = Vec::with_capacity(c.len + 8);
            while v.len() < c.len {
                v.extend_from_slice(&splitmix(&mut st).to_le_bytes());
            }
            v.truncate(c.len);
            v
        }
    }
}

pub fn check_case(c: &HexCase, tag: usize) -> Result<(), (String, String)> {
    let img = image(c);
    let code: Vec<u8> = if c.eeprom { (0..c.other_len).map(|i| (i * 13 + 1) as u8).collect() } else { img.clone() };
    let eeprom: Vec<u8> = if c.eeprom { img.clone() } else { (0..c.other_len).map(|i| (i * 11 + 3) as u8).collect() };
    let (flash_size, eeprom_size, ram_size) = reported_sizes(c, code.len(), eeprom.len());
    let br = BuildResult { code, eeprom, flash_size, eeprom_size, ram_size, ram_filling: (tag % 5) as u32 * 13, messages: if tag % 7 == 0 { vec!["message: text".to_string()] } else { vec![] } };
    let path = scratch_dir().join(format!("c07-{}-{}.hex", rayon::current_thread_index().map(|i| i as i64).unwrap_or(-1), tag % 4));
    // the output path may already hold an older, longer file (a previous build): it must be replaced
    match tag % 3 {
        1 => {
            let mut old = br.clone();
            let bigger: Vec<u8> = (0..(c.len + 40 + tag % 100)).map(|i| (i * 7) as u8).collect();
            if c.eeprom {
                old.eeprom = bigger;
            } else {
                old.code = bigger;
            }
            let p0 = path.clone();
            let _ = catch_unwind(AssertUnwindSafe(|| crate::run::guarded(|| if c.eeprom { write_eeprom_hex(p0, &old) } else { write_code_hex(p0, &old) })));
        }
        2 => {
            let _ = std::fs::write(&path, vec![b'#'; c.len * 3 + 100]);
        }
        _ => {
            let _ = std::fs::remove_file(&path);
        }
    }
    let p2 = path.clone();
    let res = catch_unwind(AssertUnwindSafe(|| crate::run::guarded(|| if c.eeprom { write_eeprom_hex(p2, &br) } else { write_code_hex(p2, &br) })));
    match res {
        Err(_) => return Err(("panic".into(), "the writer panicked".into())),
        Ok(Err(e)) => return Err(("write-error".into(), format!("the writer returned an error: {}", e))),
        Ok(Ok(())) => {}
    }
    let text = std::fs::read(&path).map_err(|e| ("io".to_string(), format!("cannot read back {}: {}", path.display(), e)))?;
    let _ = std::fs::remove_file(&path);
    let d = ihex::parse(&text).map_err(|e| ("malformed".to_string(), e))?;
    ihex::matches_image(&d, &img).map_err(|e| ("wrong-bytes".to_string(), e))?;
    if c.len > 65536 && d.ext_records < 2 {
        return Err(("wrong-bytes".into(), "image above 64 KiB decoded correctly without extended address records?".into()));
    }
    Ok(())
}

fn size_class(len: usize) -> &'static str {
    if len == 0 {
        "empty"
    } else if len <= 65536 {
        "upto64k"
    } else if len <= (1 << 20) {
        "upto1m"
    } else {
        "above1m"
    }
}

pub fn to_json(c: &HexCase) -> Value {
    json!({"kind": "hex", "len": c.len, "fill": c.fill.to_string(), "eeprom": c.eeprom, "other_len": c.other_len, "sizes": c.sizes, "note": "replay tries all three pre-existing-file variants (none, older longer hex file, garbage)"})
}

pub fn replay(v: &Value) -> Option<Result<(), String>> {
    if v.get("kind")?.as_str()? == "hexbuilt" {
        return Some(match built_verdict(v.get("src")?.as_str()?, 0) {
            None => Err("the program no longer builds".into()),
            Some(Ok(_)) => Ok(()),
            Some(Err((k, e))) => Err(format!("{}: {}", k, e)),
        });
    }
    if v.get("kind")?.as_str()? != "hex" {
        return None;
    }
    let c = HexCase { len: v.get("len")?.as_u64()? as usize, fill: v.get("fill")?.as_str()?.parse().ok()?, eeprom: v.get("eeprom")?.as_bool()?, other_len: v.get("other_len").and_then(|x| x.as_u64()).unwrap_or(0) as usize, sizes: v.get("sizes").and_then(|x| x.as_u64()).unwrap_or(0) as u16 };
    for tag in 0..3 {
        if let Err((k, e)) = check_case(&c, tag) {
            return Some(Err(format!("{}: {} (pre-existing file variant {})", k, e, tag)));
        }
    }
    Some(Ok(()))
}

/// Half of the cases report the documented defaults, the others zero / one / the exact image lengths / a row of the device table.
fn pick_sizes(rng: &mut impl RngCore) -> u16 {
    let r = rng.next_u64();
    match r % 8 {
        0..=3 => 0,
        4 => 1 + ((r >> 8) % 3) as u16,
        _ => 4 + ((r >> 8) % 200) as u16,
    }
}

/// End-to-end leg: programs for the devices with the largest flashes (and without a device) that
/// place data just below, across and above each 64 KiB boundary of the flash are assembled by the
/// tool; the file written from that very result must decode to the result's image.
fn built_cases() -> Vec<(String, String)> {
    let mut out = vec![];
    let mut devs: Vec<(String, u32)> = avra_lib::device::DEVICES.iter().map(|(k, d)| (k.to_string(), d.flash_size)).filter(|(_, f)| *f > 32768).collect();
    devs.sort();
    devs.push((String::new(), 4194304));
    for (name, words) in devs {
        let mut b = 1u32;
        while b * 32768 < words && b <= 40 {
            for (k, back) in [(0u32, 3u32), (1, 0), (2, 40)] {
                let at = b * 32768 - back;
                if at + 12 >= words {
                    continue;
                }
                let dev = if name.is_empty() { String::new() } else { format!(".device {}\n", name) };
                let src = format!("{} ldi r16, {}\n.org {:#x}\n.dw 0x1234, 0xabcd, {}, 0xffff\n.db \"boundary\", {}\n nop\n", dev, b % 200, at, at % 65536, k);
                out.push((if name.is_empty() { "no device".to_string() } else { name.clone() }, src));
            }
            b = if b < 4 { b + 1 } else { b * 2 };
        }
    }
    out
}

fn built_verdict(src: &str, slot: usize) -> Option<Result<usize, (String, String)>> {
    let br = match crate::run::build(src) {
        crate::run::Outcome::Ok(br) => br,
        _ => return None,
    };
    let path = scratch_dir().join(format!("c07-built-{}-{}.hex", rayon::current_thread_index().map(|i| i as i64).unwrap_or(-1), slot % 4));
    let _ = std::fs::remove_file(&path);
    let p2 = path.clone();
    let br2 = br.clone();
    let res = catch_unwind(AssertUnwindSafe(|| crate::run::guarded(|| write_code_hex(p2, &br2))));
    let verdict: Result<usize, (String, String)> = match res {
        Err(_) => Err(("panic".into(), "the writer panicked".into())),
        Ok(Err(e)) => Err(("write-error".into(), format!("the writer returned an error: {}", e))),
        Ok(Ok(())) => std::fs::read(&path).map_err(|e| ("io".to_string(), e.to_string())).and_then(|text| {
            let d = ihex::parse(&text).map_err(|e| ("malformed".to_string(), e))?;
            ihex::matches_image(&d, &br.code).map_err(|e| ("wrong-bytes".to_string(), e))?;
            Ok(br.code.len())
        }),
    };
    let _ = std::fs::remove_file(&path);
    Some(verdict)
}

pub fn run(ctx: &Ctx) -> Result<Ev, String> {
    let max_flash_bytes = avra_lib::device::DEVICES.values().map(|d| d.flash_size as usize * 2).max().unwrap_or(0);
    if max_flash_bytes == 0 {
        return Err("device table empty".into());
    }
    let mut cases: Vec<HexCase> = vec![];
    let small = if ctx.thorough { 4096 } else { 600 };
    let delta: i64 = if ctx.thorough { 300 } else { 17 };
    let mut rng = par::rng_for(ctx.seed, "C07", 0);
    for len in 0..=small {
        for eeprom in [false, true] {
            cases.push(HexCase { len, fill: 2 + rng.next_u64() % (u64::MAX - 2), eeprom, other_len: 0, sizes: pick_sizes(&mut rng) });
        }
    }
    for len in [0usize, 1, 15, 16, 17, 31, 32, 33, 255, 256, 257] {
        for fill in [0u64, 1] {
            cases.push(HexCase { len, fill, eeprom: false, other_len: 0, sizes: pick_sizes(&mut rng) });
        }
    }
    let mut b = 1usize;
    while b * 65536 <= max_flash_bytes {
        for d in -delta..=delta {
            let len = (b as i64 * 65536 + d) as usize;
            if len <= max_flash_bytes {
                cases.push(HexCase { len, fill: 2 + rng.next_u64() % (u64::MAX - 2), eeprom: false, other_len: 0, sizes: pick_sizes(&mut rng) });
                if b == 1 {
                    // the EEPROM writer shares the generator; the largest EEPROM in the table is far below 64 KiB,
                    // but the documented default without a device is exactly 64 KiB
                    if len <= 65536 {
                        cases.push(HexCase { len, fill: 2 + rng.next_u64() % (u64::MAX - 2), eeprom: true, other_len: 0, sizes: pick_sizes(&mut rng) });
                    }
                }
            }
        }
        b += 1;
    }
    // both images present in one result: the writers must not influence each other
    for (len, other) in [(3usize, 70_000usize), (17, 65_537), (600, 131_073), (0, 70_000), (64, 1), (1, 16), (70_000, 3), (65_537, 100), (131_080, 65_536)] {
        for eeprom in [false, true] {
            if eeprom && len > 65536 {
                continue;
            }
            cases.push(HexCase { len, fill: 2 + rng.next_u64() % (u64::MAX - 2), eeprom, other_len: other, sizes: pick_sizes(&mut rng) });
        }
    }
    let nrand = if ctx.thorough { 2000 } else { 150 };
    for i in 0..nrand {
        let len = (rng.next_u64() % (max_flash_bytes as u64 + 1)) as usize;
        cases.push(HexCase { len, fill: if i % 50 == 0 { 1 } else { 2 + rng.next_u64() % (u64::MAX - 2) }, eeprom: false, other_len: 0, sizes: pick_sizes(&mut rng) });
    }
    // the documented no-device flash capacity (8 MiB) needs addresses above 1 MiB
    for len in [(1usize << 20) - 1, 1 << 20, (1 << 20) + 1, (1 << 20) + 65536 + 5, 3 << 20, (8 << 20) - 3, 8 << 20] {
        cases.push(HexCase { len, fill: 2 + rng.next_u64() % (u64::MAX - 2), eeprom: false, other_len: 0, sizes: pick_sizes(&mut rng) });
    }
    let parts: Vec<Ev> = cases
        .par_iter()
        .enumerate()
        .map(|(i, c)| {
            let mut ev = Ev::new("C07");
            ev.eval();
            ev.class(&format!("{}:{}", if c.eeprom { "eeprom" } else { "code" }, size_class(c.len)));
            if c.len % 16 != 0 || c.len > 65536 {
                ev.nt(fp(&(c.len, c.eeprom, c.fill)));
            }
            if i % 997 == 3 {
                ev.samples.push(json!({"len": c.len, "writer": if c.eeprom {"write_eeprom_hex"} else {"write_code_hex"}, "fill_seed": c.fill.to_string()}));
            }
            if let Err((kind, why)) = check_case(c, i) {
                let sig = format!("c07:{}:{}:{}", if c.eeprom { "eeprom" } else { "code" }, size_class(c.len), kind);
                ev.violation(Violation { sig, what: format!("image of {} bytes: {}", c.len, why), replay: to_json(c) });
            }
            ev
        })
        .collect();
    let mut total = Ev::new("C07");
    for p in parts {
        total.merge(p);
    }
    for (i, (dev, src)) in built_cases().into_iter().enumerate() {
        total.eval();
        total.class("assembled-image-across-a-64KiB-boundary");
        total.nt(fp(&src));
        match built_verdict(&src, i) {
            // whether such a program builds is the subject of C02 and C12
            None => total.class("assembled-image:not-built"),
            Some(Ok(_)) => {}
            Some(Err((kind, why))) => total.violation(Violation { sig: format!("c07:assembled:{}", kind), what: format!("{} / `{}`: {}", dev, src.replace('\n', " | "), why), replay: json!({"kind": "hexbuilt", "src": src}) }),
        }
    }
    total.extra.insert("largest_flash_bytes_in_device_table".into(), json!(max_flash_bytes));
    Ok(total)
}

pub fn rule() -> String {
    "image lengths: every L in 0..=600 (thorough 0..=4096) for both writers, every 64 KiB multiple up to the largest flash of the device table ±17 (thorough ±300), seeded random lengths up to that maximum, lengths around 1 MiB and up to the documented 8 MiB no-device capacity; contents from a seeded SplitMix64 stream plus all-zero and all-0xFF; non-trivial = L not a multiple of 16 or L > 65536; distinct = distinct (length, writer, content seed)".into()
}
