//! C17 — builds are deterministic and independent of each other.
//!
//! Model-based histories: a pool of programs (generated valid/failing ones, families that share a
//! symbol / macro / flag / device / message name with different meanings, include trees for
//! build_file) and a generated list of operations: build in-process, build concurrently in 2–16
//! threads, build in a fresh process.  Reference result per program = its result in a fresh
//! worker process; every result anywhere in the history must be equal to it.

use super::{c11, c14};
use crate::evidence::{fp, Ev, Violation};
use crate::gen;
use crate::model;
use crate::par;
use crate::pool::{Slot, WOutcome};
use crate::render::render;
use crate::run::{build, build_file, scratch_dir, Outcome};
use crate::Ctx;
use proptest::prelude::*;
use serde_json::{json, Value};
use std::cell::RefCell;
use std::collections::BTreeSet;
use std::path::PathBuf;

#[derive(Clone, Debug)]
pub enum ProgSpec {
    Gen(Box<c14::Pair>),
    Shared(u8, u8, u16),
    Tree(c11::RawTree),
}

#[derive(Clone, Debug)]
pub enum Op {
    Build(u16),
    Concurrent(Vec<u16>, u8, u8),
    Fresh(u16),
}

#[derive(Clone, Debug)]
pub struct Hist {
    pub name: String,
    pub progs: Vec<ProgSpec>,
    pub ops: Vec<Op>,
}

pub fn hist() -> impl Strategy<Value = Hist> {
    let spec = prop_oneof![
        3 => c14::pair().prop_map(|p| ProgSpec::Gen(Box::new(p))),
        6 => (0u8..14, 0u8..4, any::<u16>()).prop_map(|(f, r, v)| ProgSpec::Shared(f, r, v)),
        1 => c11::raw_tree().prop_map(|mut t| { t.missing = None; t.main_symlink = false; ProgSpec::Tree(t) }),
    ];
    let op = prop_oneof![
        6 => any::<u16>().prop_map(Op::Build),
        2 => (proptest::collection::vec(any::<u16>(), 1..5), 2u8..=16, 1u8..4).prop_map(|(s, t, r)| Op::Concurrent(s, t, r)),
        1 => any::<u16>().prop_map(Op::Fresh),
    ];
    (gen::names(1), proptest::collection::vec(spec, 3..8), proptest::collection::vec(op, 6..18)).prop_map(|(n, progs, ops)| Hist { name: n[0].clone(), progs, ops })
}

#[derive(Clone, Debug)]
pub enum Prog {
    Src(String),
    Files { main: PathBuf, paths: Vec<PathBuf>, files: Vec<(String, String)> },
}

/// The same shared name gets a different meaning in every role.
pub fn shared_program(name: &str, family: u8, role: u8, v: u16) -> String {
    let v = v as u32 % 60000;
    match (family % 14, role % 4) {
        (0, 0) => format!(".equ {} = {}\n.dw {}", name, v, name),
        (0, 1) => format!(".equ {} = {}\nldi r16, low({})", name.to_uppercase(), v + 1, name),
        (0, _) => format!(".dw {}", name),
        (1, 0) => format!(".macro {}\n.dw {}\n.endm\n{}", name, v, name),
        (1, 1) => format!(".macro {}\nnop\n.dw {}\n.endm\n{}\n{}", name, v + 1, name, name),
        (1, _) => format!("{} r1", name),
        (2, 0) => ".device ATtiny13\nnop".to_string(),
        (2, 1) => ".org 600\nnop".to_string(), // builds only when no device is selected
        (2, 2) => ".device ATmega2560\n.org 100000\nnop".to_string(),
        (2, _) => ".dseg\n.byte 5000\n.cseg\nnop".to_string(),
        (3, 0) => format!(".define {}\n.ifdef {}\n.dw 1\n.else\n.dw 2\n.endif", name, name),
        (3, _) => format!(".ifdef {}\n.dw 1\n.else\n.dw 2\n.endif\n.ifndef {}\n.dw 3\n.endif", name, name),
        (4, 0) => format!("nop\n{}: nop\n.dw {}", name, name),
        (4, 1) => format!(".set {} = {}\n.dw {}\n.set {} = {} + 1\n.dw {}", name, v, name, name, name, name),
        (4, 2) => format!(".def {} = r17\nmov {}, r1", name, name),
        (4, _) => format!("mov {}, r1", name),
        (5, 0) => format!(".message \"{} {}\"\nnop", name, v),
        (5, 1) => format!(".warning \"{}\"\n.message \"second {}\"\n.dw {}", name, v, v),
        // more operands than the ten documented parameters: whatever the result is, it is the same every time
        (6, 0) => format!(".macro {}\n.db @10, @11, @1, @0\n.dw @9\n.endm\n{} 1, 2, 3, 4, 5, 6, 7, 8, 9, 10, 11, 12, 13", name, name),
        (6, 1) => format!(".macro {}\n.db @12, @3\n.endm\n{} 1, 2, 3, 4, 5, 6, 7, 8, 9, 10, 11, 12, 13, 14\n{} 21, 22, 23, 24, 25, 26, 27, 28, 29, 30, 31, 32, 33", name, name, name),
        (6, _) => format!(".macro {}\n.db @0, @1\n.endm\n{} {}, 2", name, name, v % 200),
        // several faults at once: which one is reported must not vary
        (7, 0) => format!("ldi r16, {}_a\nldi r17, {}_b\nldi r18, {}_c\n.dw {}_d", name, name, name, name),
        (7, 1) => format!("{}: nop\n{}: nop\n{}_x: nop\n{}_x: nop\nrjmp {}_y", name, name, name, name, name),
        (7, 2) => format!(".equ {} = {}_p + {}_q\n.dw {}\n.dw {}_r", name, name, name, name, name),
        (7, _) => format!("{}_m1 r1\n{}_m2 r2\n{}_m3", name, name, name),
        // failing builds that go deep before they fail, next to valid builds that need some depth
        (8, 0) => format!(".equ {} = {}_2\n.equ {}_2 = {}\n.dw {}", name, name, name, name, name),
        (8, 1) => (0..12).map(|i| format!(".equ {}_{} = {}_{} + 1\n", name, i, name, i + 1)).collect::<String>() + &format!(".equ {}_12 = {}\n.dw {}_0", name, v % 1000, name),
        (8, 2) => format!(".macro {}\n{}\n.endm\n{}", name, name, name),
        (8, _) => (0..6).map(|i| format!(".macro {}_{}\n{}\n.endm\n", name, i, if i == 0 { "nop".to_string() } else { format!("{}_{}", name, i - 1) })).collect::<String>() + &format!("{}_5\n{}_5", name, name),
        // several definitions of one name (also in another letter case) in the same program: whatever
        // the documented outcome is (last one wins, or an error), it is the same every time
        (9, 0) => format!(".macro {}\n.dw 1\n.endm\n.macro {}\n.dw 2\n.endm\n.macro {}\n.dw 3\n.endm\n{}\n{}", name, name.to_uppercase(), name.to_lowercase(), name, name.to_uppercase()),
        (9, 1) => format!(".equ {} = 1\n.equ {} = 2\n.equ {} = 3\n.dw {}", name, name.to_uppercase(), name.to_lowercase(), name),
        (9, 2) => format!(".def {} = r16\n.def {} = r17\n.def {} = r18\nmov {}, r1", name, name.to_uppercase(), name.to_lowercase(), name),
        (9, _) => format!(".define {}\n.define {}\n.ifdef {}\n.dw 1\n.endif\n.ifdef {}\n.dw 2\n.endif\n.ifdef {}\n.dw 3\n.endif", name, name.to_uppercase(), name, name.to_uppercase(), name.to_lowercase()),
        // names that are near keys of the tool's tables (longer, shorter, other letter case): whatever a
        // lookup makes of them, it makes the same of them in every process (hash-map order varies per process)
        (10, r) => {
            const NEAR: &[&str] = &["ATmega88PA", "ATmega168A", "ATmega168PA", "ATtiny2313A", "ATmega", "AT90S", "ATtiny", "atmega8", "ATMEGA8", "ATmega3250P", "ATtiny441", "ATmega16U4", "ATmega328PB", "AT90CAN128A", "ATtiny4"];
            let d = NEAR[(v as usize + r as usize * 4) % NEAR.len()];
            format!(".device {}\njmp 0\nmul r16, r17\n.dseg\n{}: .byte 1\n.cseg\n.dw {}\n.org 600\nnop", d, name, name)
        }
        // several entries of one table that answer the same question (names of one register, names of
        // one value, labels of one address, flags): whatever is reported or chosen, it is chosen the same
        // way every time (tables are hash maps whose order differs between processes and instances)
        (11, 0) => (0..(3 + v % 5)).map(|i| format!(".def {}_{} = r{}\n", name, i, 16 + v % 3)).collect::<String>() + &format!("ldi {}_0, 1\nldi {}_2, 2\n.undef {}_1\nmov {}_0, {}_2\n.def {}_9 = r{}\nldi {}_9, 3", name, name, name, name, name, name, 16 + v % 3, name),
        (11, 1) => (0..(3 + v % 5)).map(|i| format!(".equ {}_{} = {}\n{}_l{}:\n", name, i, v, name, i)).collect::<String>() + &format!("nop\n.dw {}_0, {}_2, {}_l1, {}_l2\n.equ {}_1 = 3", name, name, name, name, name),
        (11, 2) => (0..(3 + v % 5)).map(|i| format!(".set {}_{} = {}\n.define {}_f{}\n", name, i, v, name, i)).collect::<String>() + &format!(".ifdef {}_f1\n.dw {}_1\n.endif\n.set {}_1 = {}_2 + 1\n.dw {}_1\n.def {}_2 = r1", name, name, name, name, name, name),
        (11, _) => (0..(3 + v % 5)).map(|i| format!(".macro {}_{}\n.dw {}\n.message \"{} {}\"\n.endm\n", name, i, i, name, i)).collect::<String>() + &format!("{}_0\n{}_2\n{}_1\n{}_7", name, name, name, name),
        // the special name `pc` where operands are evaluated while the text is read (and where they are
        // evaluated later): a build that has run before in the same thread has left its last address
        // somewhere — whatever `pc` means in such a place, it means the same after any history
        (12, 0) => (0..(2 + v % 40)).map(|_| "nop\n").collect::<String>() + &format!("{}: rjmp pc\n.dw pc, {}\n.eseg\n.db 1, 2, 3\n.dw pc", name, name),
        (12, 1) => format!(".org pc + {}\n{}: nop\n.dw {}", 1 + v % 50, name, name),
        (12, 2) => format!("nop\n.if pc > {}\n.dw 1\n.else\n.dw 2\n.endif\n.set {} = pc\n.dw {}\n.equ {}_e = pc + 1\n.dw {}_e", v % 3, name, name, name, name),
        (12, _) => format!(".macro {}\n.org pc + 4\n.dw pc\n.endm\n.dseg\n.byte pc + {}\n{}_d: .byte 1\n.cseg\n{}\n.dw {}_d\n.if pc\n.dw 7\n.endif", name, v % 9, name, name, name),
        // one macro name called with the same argument texts in every role, but with another body; two
        // of the roles fail in the middle of the expansion pass, after that call has been expanded:
        // whatever an expansion leaves behind must not reach the next build
        (13, 0) => format!(".macro {}\nldi r16, @0\n.endm\n{} 1\n{}_undefined 5", name, name, name),
        (13, 1) => format!(".macro {}\nldi r16, @0+1\n.endm\n{} 1", name, name),
        (13, 2) => format!(".macro {}\nldi r17, @0\nnop\n.endm\n{} 1\n{}", name, name, name),
        (13, _) => format!(".macro {}\n.dw @0, {}\n.endm\n{} 1", name, v, name),
        (_, _) => "nop".to_string(),
    }
}

fn result_json(o: &Outcome) -> Value {
    match o {
        Outcome::Ok(b) => json!({"k": "o", "code": crate::run::hex(&b.code, usize::MAX), "eeprom": crate::run::hex(&b.eeprom, usize::MAX), "sizes": [b.flash_size, b.eeprom_size, b.ram_size, b.ram_filling], "messages": b.messages}),
        Outcome::Err(e) => Value::String(format!("e:{}", e)),
        Outcome::Panic(p) => Value::String(format!("p:{}", p)),
    }
}

fn worker_json(o: &WOutcome) -> Value {
    match o {
        WOutcome::Ok(v) => v.clone(),
        WOutcome::Err(e) => Value::String(format!("e:{}", e)),
        WOutcome::Panic(p) => Value::String(format!("p:{}", p)),
        WOutcome::Died(n) => Value::String(format!("died:{}", n)),
        WOutcome::Timeout => Value::String("timeout".into()),
    }
}

fn request_of(p: &Prog) -> String {
    match p {
        Prog::Src(s) => s.clone(),
        Prog::Files { main, paths, .. } => format!("\u{2}FILE:{}", json!({"main": main.to_string_lossy(), "paths": paths.iter().map(|p| p.to_string_lossy().to_string()).collect::<Vec<_>>()})),
    }
}

pub fn build_prog(p: &Prog) -> Value {
    match p {
        Prog::Src(s) => result_json(&build(s)),
        Prog::Files { main, paths, .. } => {
            let set: BTreeSet<PathBuf> = paths.iter().cloned().collect();
            result_json(&build_file(main.clone(), set))
        }
    }
}

fn brief(v: &Value) -> String {
    crate::run::truncate(&v.to_string(), 220)
}

pub fn materialize(h: &Hist, root: &std::path::Path, devices: &[model::DeviceInfo]) -> Vec<Prog> {
    let mut out = vec![];
    for (i, s) in h.progs.iter().enumerate() {
        out.push(match s {
            ProgSpec::Gen(p) => {
                let (ast, _) = c14::ast_of(&p.prog, devices);
                Prog::Src(render(&ast, p.s1).text)
            }
            ProgSpec::Shared(f, r, v) => Prog::Src(shared_program(&h.name, *f, *r, *v)),
            ProgSpec::Tree(t) => {
                let r = root.join(format!("t{}", i));
                let tree = c11::build_tree(t, &r);
                let _ = c11::write_tree(&tree, &r);
                Prog::Files { main: r.join("main/main.asm"), paths: tree.caller_dirs.clone(), files: tree.files.iter().map(|f| (f.rel.to_string_lossy().to_string(), f.text.clone())).collect() }
            }
        });
    }
    out
}

fn hist_json(progs: &[Prog], ops: &[Op]) -> Value {
    json!({
        "kind": "history",
        "programs": progs.iter().map(|p| match p {
            Prog::Src(s) => json!({"src": s}),
            Prog::Files { files, .. } => json!({"files": files}),
        }).collect::<Vec<_>>(),
        "ops": ops.iter().map(|o| match o {
            Op::Build(i) => json!({"build": i}),
            Op::Concurrent(s, t, r) => json!({"concurrent": s, "threads": t, "reps": r}),
            Op::Fresh(i) => json!({"fresh": i}),
        }).collect::<Vec<_>>(),
    })
}

/// Runs the history; Err((signature tail, description)) on the first inequality.
pub fn run_history(progs: &[Prog], ops: &[Op], slot: &mut Slot, tag: &str, ev: Option<&mut Ev>) -> Result<Result<(), (String, String)>, String> {
    let n = progs.len();
    let reqs: Vec<String> = progs.iter().map(request_of).collect();
    // reference: every program alone in its own fresh worker process (nothing was built before it);
    // the pool as a whole is additionally built in order in one long-lived worker and must agree
    let mut refs: Vec<Value> = vec![];
    for (i, r) in reqs.iter().enumerate() {
        let mut one = Slot::new(&format!("{}-ref{}", tag, i), true);
        refs.push(worker_json(&one.run(std::slice::from_ref(r))?[0]));
    }
    let in_order: Vec<Value> = slot.run(&reqs)?.iter().map(worker_json).collect();
    if let Some(i) = (0..n).find(|i| in_order[*i] != refs[*i]) {
        return Ok(Err(("sequential-in-worker".to_string(), format!("program {} built after the programs before it in one process gives {} but alone in a fresh process {}", i, brief(&in_order[i]), brief(&refs[i])))));
    }
    let mut interesting = false;
    let mut last: Option<usize> = None;
    let mut concurrent = false;
    let mut result = Ok(());
    'ops: for op in ops {
        match op {
            Op::Build(i) => {
                let i = gen::idx(*i, n);
                if let Some(l) = last {
                    if l != i {
                        interesting = true;
                    }
                }
                last = Some(i);
                let got = build_prog(&progs[i]);
                if got != refs[i] {
                    result = Err(("sequential".to_string(), format!("program {} built in-process after other builds gives {} but in a fresh process {}", i, brief(&got), brief(&refs[i]))));
                    break 'ops;
                }
            }
            Op::Concurrent(set, threads, reps) => {
                concurrent = true;
                let set: Vec<usize> = set.iter().map(|i| gen::idx(*i, n)).collect();
                let bad: std::sync::Mutex<Option<(usize, Value)>> = std::sync::Mutex::new(None);
                std::thread::scope(|sc| {
                    for t in 0..*threads as usize {
                        let set = &set;
                        let bad = &bad;
                        let refs = &refs;
                        std::thread::Builder::new()
                            .stack_size(32 << 20)
                            .spawn_scoped(sc, move || {
                                for r in 0..*reps as usize {
                                    for k in 0..set.len() {
                                        let i = set[(k + t + r) % set.len()];
                                        let got = build_prog(&progs[i]);
                                        if got != refs[i] {
                                            *bad.lock().unwrap() = Some((i, got));
                                            return;
                                        }
                                    }
                                }
                            })
                            .expect("spawn");
                    }
                });
                if let Some((i, got)) = bad.into_inner().unwrap() {
                    result = Err(("concurrent".to_string(), format!("program {} built concurrently ({} threads) gives {} but alone in a fresh process {}", i, threads, brief(&got), brief(&refs[i]))));
                    break 'ops;
                }
            }
            Op::Fresh(i) => {
                let i = gen::idx(*i, n);
                let mut fresh = Slot::new(&format!("{}-fresh", tag), true);
                let got = worker_json(&fresh.run(&[reqs[i].clone()])?[0]);
                if got != refs[i] {
                    result = Err(("fresh-process".to_string(), format!("program {} gives {} in one fresh process and {} in another", i, brief(&got), brief(&refs[i]))));
                    break 'ops;
                }
            }
        }
    }
    if let Some(ev) = ev {
        if interesting {
            ev.class("rebuilt-after-a-different-program");
        }
        if concurrent {
            ev.class("has-concurrent-step");
        }
        for r in &refs {
            ev.class(match r {
                Value::String(s) if s.starts_with("e:") => "pool-program-fails",
                Value::String(s) if s.starts_with("p:") || s.starts_with("died") || s == "timeout" => "pool-program-crashes",
                _ => "pool-program-builds",
            });
        }
        if interesting || concurrent {
            ev.nt(fp(&(reqs, format!("{:?}", ops))));
        }
    }
    Ok(result)
}

pub fn replay(v: &Value) -> Option<Result<(), String>> {
    if v.get("kind")?.as_str()? != "history" {
        return None;
    }
    let root = scratch_dir().join("c17-replay");
    let _ = std::fs::remove_dir_all(&root);
    let mut progs = vec![];
    for (i, p) in v.get("programs")?.as_array()?.iter().enumerate() {
        if let Some(s) = p.get("src").and_then(|s| s.as_str()) {
            progs.push(Prog::Src(s.to_string()));
        } else {
            let r = root.join(format!("t{}", i));
            let files: Vec<(String, String)> = p.get("files")?.as_array()?.iter().filter_map(|f| Some((f.get(0)?.as_str()?.to_string(), f.get(1)?.as_str()?.to_string()))).collect();
            for d in ["main", "cd0", "cd1"] {
                std::fs::create_dir_all(r.join(d)).ok()?;
            }
            for (rel, text) in &files {
                let path = r.join(rel);
                std::fs::create_dir_all(path.parent()?).ok()?;
                std::fs::write(path, text).ok()?;
            }
            progs.push(Prog::Files { main: r.join("main/main.asm"), paths: vec![r.join("cd0"), r.join("cd1")], files });
        }
    }
    let mut ops = vec![];
    for o in v.get("ops")?.as_array()? {
        if let Some(i) = o.get("build").and_then(|x| x.as_u64()) {
            ops.push(Op::Build(i as u16));
        } else if let Some(i) = o.get("fresh").and_then(|x| x.as_u64()) {
            ops.push(Op::Fresh(i as u16));
        } else if let Some(s) = o.get("concurrent").and_then(|x| x.as_array()) {
            ops.push(Op::Concurrent(s.iter().filter_map(|x| x.as_u64().map(|y| y as u16)).collect(), o.get("threads")?.as_u64()? as u8, o.get("reps")?.as_u64()? as u8));
        }
    }
    let mut slot = Slot::new("c17-replay", true);
    // a schedule-dependent failure may need several attempts
    let mut res = Ok(());
    for _ in 0..20 {
        match run_history(&progs, &ops, &mut slot, "c17-replay", None) {
            Ok(Ok(())) => {}
            Ok(Err((k, why))) => {
                res = Err(format!("{}: {}", k, why));
                break;
            }
            Err(e) => {
                res = Err(format!("worker infrastructure: {}", e));
                break;
            }
        }
    }
    let _ = std::fs::remove_dir_all(&root);
    Some(res)
}

pub fn run(ctx: &Ctx) -> Result<Ev, String> {
    let devices = model::model_devices();
    let shards = 16usize;
    let per = (if ctx.thorough { 100_000 } else { 2_000 } / shards) as u32;
    let seed = ctx.seed;
    let infra: std::sync::Mutex<Option<String>> = std::sync::Mutex::new(None);
    let total = par::run_shards("C17", shards, |s| {
        let slot = RefCell::new(Slot::new(&format!("c17-{}", s), true));
        let root = scratch_dir().join(format!("c17-{}", s));
        let ev = par::prop_shard("C17", seed, s, per, &hist(), |h, ev| {
            ev.eval();
            let _ = std::fs::remove_dir_all(&root);
            let progs = materialize(h, &root, &devices);
            let r = run_history(&progs, &h.ops, &mut slot.borrow_mut(), &format!("c17-{}", s), Some(ev));
            if ev.samples.len() < 1 {
                ev.samples.push(json!({"programs": progs.iter().map(|p| match p { Prog::Src(s) => crate::run::truncate(s, 160), Prog::Files{files, ..} => format!("<include tree of {} files>", files.len()) }).collect::<Vec<_>>(), "ops": format!("{:?}", h.ops)}));
            }
            match r {
                Ok(Ok(())) => Ok(()),
                Ok(Err((k, why))) => Err(Violation { sig: format!("c17:{}", k), what: why, replay: hist_json(&progs, &h.ops) }),
                Err(e) => {
                    *infra.lock().unwrap() = Some(e);
                    Ok(())
                }
            }
        });
        let _ = std::fs::remove_dir_all(&root);
        ev
    });
    if let Some(e) = infra.into_inner().unwrap() {
        return Err(format!("worker pool failure: {}", e));
    }
    if total.has_violation() {
        return Ok(total);
    }
    for required in ["rebuilt-after-a-different-program", "has-concurrent-step", "pool-program-fails", "pool-program-builds"] {
        if total.classes.get(required).copied().unwrap_or(0) == 0 {
            return Err(format!("generator degenerate: class {} never produced", required));
        }
    }
    Ok(total)
}

pub fn rule() -> String {
    "proptest histories: a pool of 3–7 programs — generated valid/failing programs (union generator, rendered under a generated style), members of six families that give one shared generated name different meanings (.equ value vs. undefined use, macro bodies vs. undefined call, .device selections vs. a no-device program that only fits without one, .define vs. bare .ifdef, label / .set / .def / undefined alias, messages) and include trees built through build_file — and 6–17 operations: build in-process, build a subset concurrently in 2–16 threads for 1–3 rounds, build in a fresh process. The reference result of each program is its result in a fresh worker process; every result in the history (BuildResult or error text) must be identical to it. Non-trivial = a program is rebuilt after a different program, or the history has a concurrent step; distinct = distinct (pool, operation list)".into()
}
