//! One module per property.

use crate::evidence::Ev;
use crate::oracle::Check;
use crate::Ctx;
use serde_json::Value;

pub mod c01;
pub mod c02;
pub mod c03;
pub mod c04;
pub mod c05;
pub mod c06;
pub mod c07;
pub mod c08;
pub mod c09;
pub mod c10;
pub mod c11;
pub mod c12;
pub mod c13;
pub mod c14;
pub mod c15;
pub mod c16;
pub mod c17;
pub mod c18;

pub struct Prop {
    pub id: &'static str,
    pub run: fn(&Ctx) -> Result<Ev, String>,
    pub rule: fn() -> String,
    pub exhaustive: fn(&Ctx) -> Option<bool>,
    pub assumptions: fn() -> Vec<String>,
}

fn none(_: &Ctx) -> Option<bool> {
    None
}
fn no_assumptions() -> Vec<String> {
    vec![]
}

pub fn lookup(id: &str) -> Option<Prop> {
    Some(match id {
        "C01" => Prop { id: "C01", run: c01::run, rule: c01::rule, exhaustive: |c| Some(c.thorough), assumptions: no_assumptions },
        "C02" => Prop { id: "C02", run: c02::run, rule: c02::rule, exhaustive: none, assumptions: no_assumptions },
        "C03" => Prop { id: "C03", run: c03::run, rule: c03::rule, exhaustive: none, assumptions: no_assumptions },
        "C04" => Prop { id: "C04", run: c04::run, rule: c04::rule, exhaustive: |_| Some(true), assumptions: no_assumptions },
        "C05" => Prop { id: "C05", run: c05::run, rule: c05::rule, exhaustive: none, assumptions: no_assumptions },
        "C06" => Prop { id: "C06", run: c06::run, rule: c06::rule, exhaustive: none, assumptions: no_assumptions },
        "C07" => Prop { id: "C07", run: c07::run, rule: c07::rule, exhaustive: none, assumptions: no_assumptions },
        "C08" => Prop { id: "C08", run: c08::run, rule: c08::rule, exhaustive: none, assumptions: no_assumptions },
        "C09" => Prop { id: "C09", run: c09::run, rule: c09::rule, exhaustive: none, assumptions: no_assumptions },
        "C10" => Prop { id: "C10", run: c10::run, rule: c10::rule, exhaustive: none, assumptions: no_assumptions },
        "C11" => Prop { id: "C11", run: c11::run, rule: c11::rule, exhaustive: none, assumptions: no_assumptions },
        "C12" => Prop { id: "C12", run: c12::run, rule: c12::rule, exhaustive: |_| Some(true), assumptions: no_assumptions },
        "C13" => Prop { id: "C13", run: c13::run, rule: c13::rule, exhaustive: |_| Some(true), assumptions: no_assumptions },
        "C14" => Prop { id: "C14", run: c14::run, rule: c14::rule, exhaustive: none, assumptions: no_assumptions },
        "C15" => Prop { id: "C15", run: c15::run, rule: c15::rule, exhaustive: none, assumptions: no_assumptions },
        "C16" => Prop { id: "C16", run: c16::run, rule: c16::rule, exhaustive: none, assumptions: no_assumptions },
        "C17" => Prop { id: "C17", run: c17::run, rule: c17::rule, exhaustive: none, assumptions: no_assumptions },
        "C18" => Prop { id: "C18", run: c18::run, rule: c18::rule, exhaustive: none, assumptions: no_assumptions },
        _ => return None,
    })
}

/// Re-evaluate a saved case.  Most properties store a serialised `oracle::Check`.
pub fn replay(_id: &str, case: &Value) -> Option<Result<(), String>> {
    if let Some(c) = Check::from_json(case) {
        return Some(c.eval());
    }
    if let Some(r) = c07::replay(case) {
        return Some(r);
    }
    if let Some(r) = c11::replay(case) {
        return Some(r);
    }
    if let Some(r) = c15::replay(case) {
        return Some(r);
    }
    if let Some(r) = c16::replay(case) {
        return Some(r);
    }
    if let Some(r) = c17::replay(case) {
        return Some(r);
    }
    if let Some(r) = c18::replay(case) {
        return Some(r);
    }
    if let Some(r) = c12::replay(case) {
        return Some(r);
    }
    None
}
