//! C13 — instructions the selected device lacks are rejected; all others are unaffected.
//!
//! Exhaustive over (device in the tool's own table) × (every instruction form of C01) with
//! three operand tuples per form (first, last, one seeded random index of the form's space).
//! The feature flags are read from the tool's table (the property says "according to the
//! device table's feature flags"); only their *meaning* (`isa::gate`) is independent.

use super::c01::{render_line, spaces};
use crate::evidence::{fp, Ev, Violation};
use crate::isa::{self, Core, Verdict};
use crate::oracle::Check;
use crate::par;
use crate::Ctx;
use proptest::prelude::RngCore;
use rayon::prelude::*;
use serde_json::json;

pub struct Dev {
    pub name: String,
    pub flags: Vec<String>,
    pub flash_words: u32,
    pub ram_start: u32,
    pub ram_size: u32,
    pub eeprom_size: u32,
}

pub fn devices() -> Vec<Dev> {
    let mut v: Vec<Dev> = avra_lib::device::DEVICES
        .iter()
        .map(|(n, d)| Dev {
            name: n.to_string(),
            flags: d.disable_opts.iter().map(|f| format!("{:?}", f)).collect(),
            flash_words: d.flash_size,
            ram_start: d.ram_start,
            ram_size: d.ram_size,
            eeprom_size: d.eeprom_size,
        })
        .collect();
    v.sort_by(|a, b| a.name.cmp(&b.name));
    v
}

/// Pragmas of the vendor's assembler (AVRASM2 documents these) none of them selects a device or a core.
pub const PRAGMAS: &[&str] = &[
    ".pragma warning instruction",
    "#pragma warning instruction",
    ".pragma error instruction",
    "#pragma error instruction",
    "#pragma AVRPART ADMIN PART_NAME ATmega2560",
    "#pragma AVRPART CORE CORE_VERSION V3",
    "#pragma AVRPART CORE INST_LPM 1",
    "#pragma AVRPART MEMORY PROG_FLASH 262144",
    ".pragma warning range byte option integer",
    ".pragma warning overlap",
    "#pragma overlap option ignore",
    "#pragma overlap option warning",
    ".pragma partinc 0",
    "#pragma partinclude push",
    ".pragma instruction warning",
    ".pragma all instructions allowed",
];

pub fn run(ctx: &Ctx) -> Result<Ev, String> {
    isa::self_test()?;
    let devs = devices();
    if devs.is_empty() {
        return Err("device table is empty".into());
    }
    let forms = spaces(false, ctx.seed);
    let parts: Vec<Ev> = devs
        .par_iter()
        .enumerate()
        .map(|(di, dev)| {
            let mut ev = Ev::new("C13");
            let core = if dev.flags.iter().any(|f| f == "Avr8l") { Core::Avr8l } else { Core::Full };
            let mut rng = par::rng_for(ctx.seed, "C13", di as u64);
            let mut allowed_lines: Vec<(String, String)> = vec![];
            let mut gated_lines: Vec<(String, String, String)> = vec![];
            for s in forms.iter() {
                let first = (s.get)(0);
                let is_ldsts = first.m == "lds" || first.m == "sts";
                if is_ldsts && s.core != core {
                    continue; // the other core's lds/sts form
                }
                if !is_ldsts && s.device.is_some() {
                    continue;
                }
                let blk = s.len / s.subforms;
                let mut idx = vec![];
                for b in 0..s.subforms {
                    let mut one = vec![b * blk, b * blk + blk - 1, b * blk + rng.next_u64() % blk];
                    one.dedup();
                    idx.extend(one);
                }
                for i in idx {
                    let c = (s.get)(i);
                    let (line, ops) = render_line(&c, 0);
                    let src = format!(".device {}\n{}", dev.name, line);
                    ev.eval();
                    let rejected = isa::gate(&dev.flags, &c.m, &ops);
                    let (chk, sig_head) = if rejected {
                        ev.nt(fp(&(&dev.name, &c.m, &ops)));
                        ev.class(&format!("gated:{}", isa::gate_reason(&dev.flags, &c.m, &ops)));
                        gated_lines.push((line.clone(), c.m.clone(), isa::gate_reason(&dev.flags, &c.m, &ops)));
                        (Check::MustFail { src: src.clone(), token: None }, format!("c13:{}:{}{}", isa::gate_reason(&dev.flags, &c.m, &ops), c.m, if ops.is_empty() { ":bare" } else { "" }))
                    } else {
                        if is_ldsts && core == Core::Avr8l {
                            ev.nt(fp(&(&dev.name, &c.m, &ops)));
                        }
                        ev.class("allowed");
                        let words = match isa::assemble(&c.m, &ops, core, 0) {
                            Verdict::Legal(w) | Verdict::Either(w) => w,
                            Verdict::Illegal => continue,
                        };
                        // observed together with a label behind it: encoding *and* length must be those of
                        // the no-device build (one-word lds/sts on reduced cores)
                        let (line1, ops1) = render_line(&c, 1);
                        let words = match isa::assemble(&c.m, &ops1, core, 1) {
                            Verdict::Legal(w) | Verdict::Either(w) => w,
                            Verdict::Illegal => words,
                        };
                        let mut bytes: Vec<u8> = vec![0, 0];
                        bytes.extend(words.iter().flat_map(|x| [(*x & 0xff) as u8, (*x >> 8) as u8]));
                        let after = 1 + words.len() as u16;
                        bytes.extend_from_slice(&[0, 0, (after & 0xff) as u8, (after >> 8) as u8]);
                        let src2 = format!(".device {}\nnop\n{}\nc13_after: nop\n.dw c13_after", dev.name, line1);
                        allowed_lines.push((line.clone(), c.m.clone()));
                        (Check::image_code(src2, bytes), format!("c13:allowed:{}", c.m))
                    };
                    if di % 9 == 0 && i == 0 && ev.samples.len() < 3 && rejected {
                        ev.samples.push(json!({"src": src, "flags": dev.flags, "expect": "rejected"}));
                    }
                    if let Err(e) = chk.eval() {
                        let outcome = if rejected { "notgated" } else if e.contains("Err(") { "rejected" } else { "changed" };
                        ev.violation(Violation { sig: format!("{}:{}", sig_head, outcome), what: format!("`{}` flags {:?}: {}", src.replace('\n', " | "), dev.flags, e), replay: chk.to_json() });
                    }
                }
            }
            // convention-dependent spellings (`ld r,Y+q`, `ldd r,Y`, …): whatever the assembler does with
            // them on a full device, a device lacking the pointer register must reject them
            {
                use crate::isa::{Opd, PMode, Ptr};
                let mut extra: Vec<(&str, Vec<Opd>)> = vec![];
                for p in [Ptr::X, Ptr::Y, Ptr::Z] {
                    for q in [0i64, 1, 63] {
                        extra.push(("ld", vec![Opd::R(0), Opd::Q(p, q)]));
                        extra.push(("st", vec![Opd::Q(p, q), Opd::R(31)]));
                    }
                    for mo in [PMode::Plain, PMode::PostInc, PMode::PreDec] {
                        extra.push(("ldd", vec![Opd::R(5), Opd::P(p, mo)]));
                        extra.push(("std", vec![Opd::P(p, mo), Opd::R(5)]));
                    }
                }
                for (m, ops) in extra {
                    let line = format!("{} {}", m, ops.iter().map(|o| o.to_string()).collect::<Vec<_>>().join(", "));
                    let src = format!(".device {}\n{}", dev.name, line);
                    ev.eval();
                    let chk = if isa::gate(&dev.flags, m, &ops) {
                        ev.class("convention-spelling:gated");
                        ev.nt(fp(&src));
                        Check::MustFail { src: src.clone(), token: None }
                    } else {
                        ev.class("convention-spelling:available");
                        match isa::assemble(m, &ops, core, 0) {
                            Verdict::Legal(w) | Verdict::Either(w) => Check::FailOrImage { src: src.clone(), code: w.iter().flat_map(|x| [(*x & 0xff) as u8, (*x >> 8) as u8]).collect() },
                            Verdict::Illegal => Check::MustFail { src: src.clone(), token: None },
                        }
                    };
                    if let Err(e) = chk.eval() {
                        ev.violation(Violation { sig: format!("c13:{}:{}:convention-spelling", isa::gate_reason(&dev.flags, m, &ops), m), what: format!("`{}` on {}: {}", line, dev.name, e), replay: chk.to_json() });
                    }
                }
            }
            // sequences: a missing form must also be rejected after any number of available ones
            // (in particular after available forms of the same mnemonic), and in front of them
            let rel_free: Vec<&(String, String)> = allowed_lines.iter().filter(|(l, _)| !l.contains("pc")).collect();
            let all_allowed: String = rel_free.iter().map(|(l, _)| format!("{}\n", l)).collect();
            let mut seen = std::collections::BTreeSet::new();
            let mut pragma_i = dev.name.len();
            for (gl, gm, reason) in &gated_lines {
                if gl.contains("pc") || !seen.insert((gm.clone(), gl.split(',').last().unwrap_or("").trim().to_string())) {
                    continue;
                }
                let same: String = rel_free.iter().filter(|(_, m)| m == gm).map(|(l, _)| format!("{}\n", l)).collect();
                for (variant, src) in [
                    ("after-all-available-forms", format!(".device {}\n{}{}\n", dev.name, all_allowed, gl)),
                    ("after-available-forms-of-same-mnemonic", format!(".device {}\n{}{}\nnop\n", dev.name, same, gl)),
                    ("before-available-forms", format!(".device {}\n{}\n{}", dev.name, gl, all_allowed)),
                    ("in-second-code-segment", format!(".device {}\n{}.dseg\n.cseg\n.org 0x100\n{}{}\n", dev.name, same, same, gl)),
                    // the directives that select nothing (the pragmas of the vendor's assembler, which the shipped
                    // part-definition files are full of) change nothing about what the device lacks
                    ("with-pragma-in-front", format!("{}\n.device {}\n{}\n", PRAGMAS[pragma_i % PRAGMAS.len()], dev.name, gl)),
                    ("with-pragma-behind-device", format!(".device {}\n{}\n{}\n", dev.name, PRAGMAS[(pragma_i + 3) % PRAGMAS.len()], gl)),
                    ("with-pragma-at-the-end", format!(".device {}\n{}\n{}\n", dev.name, gl, PRAGMAS[(pragma_i + 7) % PRAGMAS.len()])),
                ] {
                    pragma_i += 1;
                    ev.eval();
                    ev.class(&format!("sequence:{}", variant));
                    ev.nt(fp(&src));
                    let chk = Check::MustFail { src: src.clone(), token: None };
                    if let Err(e) = chk.eval() {
                        ev.violation(Violation { sig: format!("c13:{}:{}:sequence:notgated", reason, gm), what: format!("[{}] `{}` on {}: {}", variant, gl, dev.name, e), replay: chk.to_json() });
                    }
                }
            }
            // and all available forms together build
            {
                ev.eval();
                ev.class("sequence:all-available-forms-build");
                let src = format!("{}\n.device {}\n{}\n{}{}\n", PRAGMAS[pragma_i % PRAGMAS.len()], dev.name, PRAGMAS[(pragma_i + 5) % PRAGMAS.len()], all_allowed, PRAGMAS[(pragma_i + 11) % PRAGMAS.len()]);
                let chk = Check::MustBuild { src: src.clone() };
                if let Err(e) = chk.eval() {
                    ev.violation(Violation { sig: "c13:allowed:sequence:rejected".into(), what: format!("all available forms of {} in one program: {}", dev.name, e), replay: chk.to_json() });
                }
            }
            ev
        })
        .collect();
    let mut total = Ev::new("C13");
    for p in parts {
        total.merge(p);
    }
    // free-form leg: the byte decoder of the libFuzzer target `gate` (any device × any encodable
    // instruction with operands spelled several ways, at word addresses 0..5)
    {
        let n: u64 = if ctx.thorough { 8_000_000 } else { 800_000 };
        let parts: Vec<Ev> = (0..32u64)
            .into_par_iter()
            .map(|sh| {
                let mut rng = par::rng_for(ctx.seed, "C13-free", sh);
                let mut ev = Ev::new("C13");
                for _ in 0..n / 32 {
                    let mut buf = [0u8; 64];
                    rng.fill_bytes(&mut buf);
                    let c = crate::decode::instr_case(&mut crate::decode::Cur::new(&buf));
                    if let Some((class, r)) = crate::fuzz::instr_c13(&c) {
                        ev.eval();
                        ev.class(&format!("free-form:{}", class));
                        if class == "gated" {
                            ev.nt(fp(&(&c.m, &c.ops, c.dev, c.pc)));
                        }
                        if let Err(v) = r {
                            ev.violation(v);
                        }
                    }
                }
                ev
            })
            .collect();
        for p in parts {
            total.merge(p);
        }
    }
    total.extra.insert("devices".into(), json!(devs.len()));
    total.extra.insert("forms".into(), json!(forms.len()));
    Ok(total)
}

pub fn rule() -> String {
    "exhaustive over every device of the tool's table × every instruction form (each mnemonic, each pointer form, each lpm/elpm form) with three operand tuples per form (smallest, largest, one seeded random); non-trivial = (device, form) pairs the documented flag meaning rejects, plus every lds/sts pair on reduced-core devices; distinct = distinct (device, mnemonic, operands)".into()
}
