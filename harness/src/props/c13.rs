//! C13 — instructions the selected device lacks are rejected; all others are unaffected.
//!
//! Exhaustive over (device in the tool's own table) × (every instruction form of C01) with
//! three operand tuples per form (first, last, one seeded random index of the form's space).
//! The feature flags are read from the tool's table (the property says "according to the
//! device table's feature flags"); only their *meaning* (`isa::gate`) is independent.

use super::c01::{render_line, spaces};
use crate::evidence::{fp, Ev, Violation};
use crate::isa::{self, Core, Verdict};
use crate::oracle::Check;
use crate::par;
use crate::Ctx;
use proptest::prelude::RngCore;
use rayon::prelude::*;
use serde_json::json;

pub struct Dev {
    pub name: String,
    pub flags: Vec<String>,
    pub flash_words: u32,
    pub ram_start: u32,
    pub ram_size: u32,
    pub eeprom_size: u32,
}

pub fn devices() -> Vec<Dev> {
    let mut v: Vec<Dev> = avra_lib::device::DEVICES
        .iter()
        .map(|(n, d)| Dev {
            name: n.to_string(),
            flags: d.disable_opts.iter().map(|f| format!("{:?}", f)).collect(),
            flash_words: d.flash_size,
            ram_start: d.ram_start,
            ram_size: d.ram_size,
            eeprom_size: d.eeprom_size,
        })
        .collect();
    v.sort_by(|a, b| a.name.cmp(&b.name));
    v
}

pub fn run(ctx: &Ctx) -> Result<Ev, String> {
    isa::self_test()?;
    let devs = devices();
    if devs.is_empty() {
        return Err("device table is empty".into());
    }
    let forms = spaces(false, ctx.seed);
    let parts: Vec<Ev> = devs
        .par_iter()
        .enumerate()
        .map(|(di, dev)| {
            let mut ev = Ev::new("C13");
            let core = if dev.flags.iter().any(|f| f == "Avr8l") { Core::Avr8l } else { Core::Full };
            let mut rng = par::rng_for(ctx.seed, "C13", di as u64);
            for s in forms.iter() {
                let first = (s.get)(0);
                let is_ldsts = first.m == "lds" || first.m == "sts";
                if is_ldsts && s.core != core {
                    continue; // the other core's lds/sts form
                }
                if !is_ldsts && s.device.is_some() {
                    continue;
                }
                let blk = s.len / s.subforms;
                let mut idx = vec![];
                for b in 0..s.subforms {
                    let mut one = vec![b * blk, b * blk + blk - 1, b * blk + rng.next_u64() % blk];
                    one.dedup();
                    idx.extend(one);
                }
                for i in idx {
                    let c = (s.get)(i);
                    let (line, ops) = render_line(&c, 0);
                    let src = format!(".device {}\n{}", dev.name, line);
                    ev.eval();
                    let rejected = isa::gate(&dev.flags, &c.m, &ops);
                    let (chk, sig_head) = if rejected {
                        ev.nt(fp(&(&dev.name, &c.m, &ops)));
                        ev.class(&format!("gated:{}", isa::gate_reason(&dev.flags, &c.m, &ops)));
                        (Check::MustFail { src: src.clone(), token: None }, format!("c13:{}:{}{}", isa::gate_reason(&dev.flags, &c.m, &ops), c.m, if ops.is_empty() { ":bare" } else { "" }))
                    } else {
                        if is_ldsts && core == Core::Avr8l {
                            ev.nt(fp(&(&dev.name, &c.m, &ops)));
                        }
                        ev.class("allowed");
                        let words = match isa::assemble(&c.m, &ops, core, 0) {
                            Verdict::Legal(w) | Verdict::Either(w) => w,
                            Verdict::Illegal => continue,
                        };
                        let bytes = words.iter().flat_map(|x| [(*x & 0xff) as u8, (*x >> 8) as u8]).collect();
                        (Check::image_code(src.clone(), bytes), format!("c13:allowed:{}", c.m))
                    };
                    if di % 9 == 0 && i == 0 && ev.samples.len() < 3 && rejected {
                        ev.samples.push(json!({"src": src, "flags": dev.flags, "expect": "rejected"}));
                    }
                    if let Err(e) = chk.eval() {
                        let outcome = if rejected { "notgated" } else if e.contains("Err(") { "rejected" } else { "changed" };
                        ev.violation(Violation { sig: format!("{}:{}", sig_head, outcome), what: format!("`{}` flags {:?}: {}", src.replace('\n', " | "), dev.flags, e), replay: chk.to_json() });
                    }
                }
            }
            ev
        })
        .collect();
    let mut total = Ev::new("C13");
    for p in parts {
        total.merge(p);
    }
    total.extra.insert("devices".into(), json!(devs.len()));
    total.extra.insert("forms".into(), json!(forms.len()));
    Ok(total)
}

pub fn rule() -> String {
    "exhaustive over every device of the tool's table × every instruction form (each mnemonic, each pointer form, each lpm/elpm form) with three operand tuples per form (smallest, largest, one seeded random); non-trivial = (device, form) pairs the documented flag meaning rejects, plus every lds/sts pair on reduced-core devices; distinct = distinct (device, mnemonic, operands)".into()
}
