//! C03 — relative branches and jumps reach exactly the target that was named.

use crate::ast::*;
use crate::evidence::{fp, Ev, Violation};
use crate::gen;
use crate::isa::{self, Core};
use crate::model::{self, Expect, ModelOpts};
use crate::oracle::Check;
use crate::par;
use crate::render::{render, Style};
use crate::run::{build as run_build, words, Outcome};
use crate::Ctx;
use proptest::prelude::*;
use serde_json::json;

#[derive(Clone, Debug)]
pub struct RelCase {
    /// index into `kinds()`
    pub kind: usize,
    /// flag number for brbs/brbc
    pub s: u8,
    /// wanted displacement
    pub d: i64,
    pub prefix: u8,
    pub filler: Vec<u8>,
    /// 0 label, 1 pc-relative, 2 label+k, 3 label-k
    pub spelling: u8,
    pub k: u8,
    /// 0 none, 1 ATtiny20 (reduced core: one-word lds/sts, no jmp), 2 ATmega8 (no jmp), 3 ATmega2560
    pub dev: u8,
    pub style: Style,
}

pub fn kinds() -> Vec<String> {
    let mut v: Vec<String> = isa::BRANCHES.iter().map(|(s, _, _)| format!("br{}", s)).collect();
    v.push("brbs".into());
    v.push("brbc".into());
    v.push("rjmp".into());
    v.push("rcall".into());
    v
}

fn limit(kind: &str) -> i64 {
    if kind == "rjmp" || kind == "rcall" {
        2048
    } else {
        64
    }
}

#[derive(Default)]
pub struct Shape {
    pub two_word: bool,
    pub odd_db: bool,
    pub org_gap: bool,
    /// the instruction is the first one after an .org gap, a segment excursion or data
    pub lead: bool,
}

/// Filler items totalling exactly `total` words.  `allow_org`: an `.org` gap may be used (its
/// absolute target is computed from `start`).
fn filler(recipe: &[u8], total: i64, start: i64, shape: &mut Shape, dev: u8) -> Vec<Ln> {
    let avr8l = dev == 1;
    let no_jmp = dev == 1 || dev == 2;
    let mut out = vec![];
    let mut left = total;
    let mut pos = start;
    for r in recipe {
        if left <= 0 {
            break;
        }
        let (st, size): (St, i64) = match r % 8 {
            0 | 1 => (St::Ins("nop".into(), vec![]), 1),
            2 if left >= 2 && !no_jmp => {
                shape.two_word = true;
                (St::Ins(if r & 8 == 0 { "jmp" } else { "call" }.into(), vec![Opnd::Ex(E::Num(0x1234 + *r as i64))]), 2)
            }
            2 | 3 if avr8l => {
                // reduced core: lds/sts are one-word instructions
                shape.two_word = true;
                if r & 16 == 0 {
                    (St::Ins("lds".into(), vec![Opnd::Reg(16 + r % 16), Opnd::Ex(E::Num(0x40 + (*r as i64 % 128)))]), 1)
                } else {
                    (St::Ins("sts".into(), vec![Opnd::Ex(E::Num(0x40 + (*r as i64 % 128))), Opnd::Reg(16 + r % 16)]), 1)
                }
            }
            2 | 3 if left >= 2 => {
                shape.two_word = true;
                if r & 16 == 0 {
                    (St::Ins("lds".into(), vec![Opnd::Reg(r % 32), Opnd::Ex(E::Num(0x60 + *r as i64))]), 2)
                } else {
                    (St::Ins("sts".into(), vec![Opnd::Ex(E::Num(0x60 + *r as i64)), Opnd::Reg(r % 32)]), 2)
                }
            }
            4 => {
                // odd-length .db: 1 or 3 bytes -> 1 or 2 words
                let n = if left >= 2 && r & 8 != 0 { 3 } else { 1 };
                shape.odd_db = true;
                (St::Data(DKind::Db, (0..n).map(|i| DItem::Ex(E::Num(i as i64 + 1))).collect()), (n + 1) / 2)
            }
            5 => {
                let n = (1 + (*r as i64 >> 3) % 6).min(left);
                (St::Data(DKind::Dw, (0..n).map(|i| DItem::Ex(E::Num(i * 257))).collect()), n)
            }
            6 if left >= 4 => {
                // .org gap covering part of what is left
                let g = 1 + (*r as i64 >> 3) * left / 40;
                let g = g.clamp(1, left - 1);
                shape.org_gap = true;
                out.push(Ln::st(St::Org(E::Num(pos + g))));
                // an .org must be followed by an item
                (St::Ins("nop".into(), vec![]), g + 1)
            }
            7 => {
                // strings, also with characters of more than one byte: sized in bytes, not characters
                let texts = ["ab", "\u{e9}", "gr\u{f6}\u{df}e", "\u{b5}s", "a\u{20ac}", "\u{20ac}\u{e9}x"];
                let t = texts[(*r as usize >> 3) % texts.len()];
                let words = (t.len() as i64 + 1) / 2;
                if words <= left {
                    (St::Data(DKind::Db, vec![DItem::Str(t.into())]), words)
                } else {
                    (St::Ins("nop".into(), vec![]), 1)
                }
            }
            _ => (St::Ins("nop".into(), vec![]), 1),
        };
        out.push(Ln::st(st));
        left -= size;
        pos += size;
    }
    if left > 6 {
        shape.org_gap = true;
        out.push(Ln::st(St::Org(E::Num(pos + left - 1))));
        out.push(Ln::st(St::Ins("nop".into(), vec![])));
    } else {
        for _ in 0..left {
            out.push(Ln::st(St::Ins("nop".into(), vec![])));
        }
    }
    out
}

pub struct Built {
    pub prog: Vec<Ln>,
    pub addr: i64,
    pub shape: Shape,
    pub mnemonic: String,
}

pub fn build(c: &RelCase) -> Built {
    let ks = kinds();
    let m = ks[c.kind % ks.len()].clone();
    let mut shape = Shape::default();
    let mut prog: Vec<Ln> = vec![];
    let devname = ["", "ATtiny20", "ATmega8", "ATmega2560"][c.dev as usize % 4];
    if !devname.is_empty() {
        prog.push(Ln::st(St::Device(devname.to_string())));
    }
    // `alt0` at the very beginning, `alt1` at the very end: anchors for the label±k spellings
    prog.push(Ln::label("alt0"));
    let p = 1 + c.prefix as i64 % 40;
    for _ in 0..p {
        prog.push(Ln::st(St::Ins("nop".into(), vec![])));
    }
    let start = p;
    let mk_ins = |e: E| {
        let mut ops = vec![];
        if m == "brbs" || m == "brbc" {
            ops.push(Opnd::Ex(E::Num((c.s % 8) as i64)));
        }
        ops.push(Opnd::Ex(e));
        St::Ins(m.clone(), ops)
    };
    let addr;
    let target;
    let ins_index;
    // what stands directly in front of the instruction: nothing, an .org gap, an excursion into
    // another segment, or data (the instruction is then the first one after it)
    let lead_kind = (c.k / 12) % 6;
    let lead_words: i64 = match lead_kind {
        1 => 1 + (c.k as i64 % 5),
        4 => 1,
        5 => 2,
        _ => 0,
    };
    let mut lead = |prog: &mut Vec<Ln>, at: i64, shape: &mut Shape| match lead_kind {
        1 => {
            shape.org_gap = true;
            shape.lead = true;
            prog.push(Ln::st(St::Org(E::Num(at + lead_words))));
        }
        2 if c.dev != 1 => {
            // (ATtiny20 has no EEPROM)
            shape.lead = true;
            prog.push(Ln::st(St::Seg(Seg::Eeprom)));
            prog.push(Ln::st(St::Data(DKind::Db, vec![DItem::Ex(E::Num(1)), DItem::Ex(E::Num(2)), DItem::Ex(E::Num(3))])));
            prog.push(Ln::st(St::Seg(Seg::Code)));
        }
        3 => {
            shape.lead = true;
            prog.push(Ln::st(St::Seg(Seg::Data)));
            prog.push(Ln::st(St::Byte(E::Num(3))));
            prog.push(Ln::st(St::Seg(Seg::Code)));
        }
        4 => {
            shape.odd_db = true;
            shape.lead = true;
            prog.push(Ln::st(St::Data(DKind::Db, vec![DItem::Ex(E::Num(7))])));
        }
        5 => {
            shape.lead = true;
            prog.push(Ln::st(St::Data(DKind::Dw, vec![DItem::Ex(E::Num(7)), DItem::Ex(E::Num(8))])));
        }
        _ => {}
    };
    if c.d >= 0 {
        // forward: instruction, filler of d words, target
        lead(&mut prog, start, &mut shape);
        let start = start + lead_words;
        addr = start;
        ins_index = prog.len();
        prog.push(Ln::st(mk_ins(E::sym("tgt"))));
        prog.extend(filler(&c.filler, c.d, start + 1, &mut shape, c.dev));
        target = addr + 1 + c.d;
        prog.push(Ln::with_label("tgt", St::Ins("nop".into(), vec![])));
    } else {
        // backward: target, filler of (-d-1) words, instruction
        let f = -c.d - 1;
        target = start;
        prog.push(Ln::label("tgt"));
        if f >= lead_words {
            prog.extend(filler(&c.filler, f - lead_words, start, &mut shape, c.dev));
            lead(&mut prog, start + f - lead_words, &mut shape);
        } else {
            prog.extend(filler(&c.filler, f, start, &mut shape, c.dev));
        }
        addr = start + f;
        ins_index = prog.len();
        prog.push(Ln::st(mk_ins(E::sym("tgt"))));
    }
    prog.push(Ln::st(St::Ins("nop".into(), vec![])));
    let end = if c.d >= 0 { target + 2 } else { addr + 2 };
    prog.push(Ln::label("alt1"));
    let e = match if c.spelling % 6 >= 4 { 1 + (c.k % 3) } else { c.spelling % 4 } {
        1 => {
            let off = c.d + 1;
            if off >= 0 {
                E::bin(BinOp::Add, E::Pc, E::Num(off))
            } else {
                E::bin(BinOp::Sub, E::Pc, E::Num(-off))
            }
        }
        2 => E::bin(BinOp::Add, E::sym("alt0"), E::Num(target)),
        3 => E::bin(BinOp::Sub, E::sym("alt1"), E::Num(end - target)),
        _ => E::sym("tgt"),
    };
    match c.spelling % 6 {
        4 => {
            // the instruction comes out of a macro; its target is a compound argument
            prog[ins_index] = Ln::st(St::Call("c03_jump".into(), vec![Opnd::Ex(e)]));
            prog.insert(0, Ln::st(St::MacroDef("c03_jump".into(), vec![Ln::st(mk_ins(E::Arg(0)))])));
        }
        5 => {
            // the body computes the target from its parameter next to a tighter-binding neighbour:
            // pc - @0 with @0 = 3 + k, k = -(d+1) - 3
            let k = -(c.d + 1) - 3;
            prog[ins_index] = Ln::st(St::Call("C03_Jump".into(), vec![Opnd::Ex(E::bin(BinOp::Add, E::Num(3), E::num(k)))]));
            prog.insert(0, Ln::st(St::MacroDef("c03_jump".into(), vec![Ln::st(mk_ins(E::bin(BinOp::Sub, E::Pc, E::Arg(0))))])));
        }
        _ => prog[ins_index] = Ln::st(mk_ins(e)),
    }
    Built { prog, addr, shape, mnemonic: m }
}

pub fn test(c: &RelCase, ev: &mut Ev, opts: &ModelOpts) -> Result<(), Violation> {
    ev.eval();
    let b = build(c);
    let lim = limit(&b.mnemonic);
    let text = render(&b.prog, c.style).text;
    let (exp, _) = model::assemble(&b.prog, opts);
    let near = (c.d - (lim - 1)).abs() <= 2 || (c.d + lim).abs() <= 2;
    if near || b.shape.two_word || b.shape.odd_db || b.shape.org_gap {
        ev.nt(fp(&text));
    }
    ev.class(&format!("spelling:{}", ["label", "pc-relative", "label+k", "label-k", "through-macro-argument", "computed-in-macro-body"][c.spelling as usize % 6]));
    if near {
        ev.class("within-2-of-a-limit");
    }
    if b.shape.two_word {
        ev.class("filler-two-word");
    }
    if b.shape.odd_db {
        ev.class("filler-odd-db");
    }
    if b.shape.org_gap {
        ev.class("filler-org-gap");
    }
    if b.shape.lead {
        ev.class("instruction-first-after-gap-excursion-or-data");
    }
    let in_range = (-lim..lim).contains(&c.d);
    match &exp {
        Expect::Ok(img) => {
            if !in_range {
                // the model must agree with the arithmetic of the generator
                ev.discarded += 1;
                ev.class("harness-inconsistent");
                return Ok(());
            }
            ev.class("reachable");
            // direct decode check of the model's own word (self-test of the construction)
            let w = words(&img.code);
            match isa::decode(w[b.addr as usize], None, Core::Full) {
                Some((_, ops, _)) => {
                    if ops.last() != Some(&isa::Opd::K(c.d)) {
                        ev.discarded += 1;
                        ev.class("harness-inconsistent");
                        return Ok(());
                    }
                }
                None => {
                    ev.discarded += 1;
                    return Ok(());
                }
            }
            if ev.samples.len() < 2 {
                ev.samples.push(json!({"program": text, "instruction_address": b.addr, "displacement": c.d}));
            }
            let chk = Check::image_code(text.clone(), img.code.clone());
            match run_build(&text) {
                Outcome::Ok(r) if r.code == img.code => Ok(()),
                Outcome::Ok(r) => {
                    let got = words(&r.code);
                    let dec = got.get(b.addr as usize).and_then(|x| isa::decode(*x, None, Core::Full));
                    Err(Violation { sig: format!("c03:{}:wrong-displacement", b.mnemonic), what: format!("{} at word {} should encode displacement {}; tool's word decodes to {:?}", b.mnemonic, b.addr, c.d, dec), replay: chk.to_json() })
                }
                o => Err(Violation { sig: format!("c03:{}:reachable-rejected", b.mnemonic), what: format!("{} with displacement {} (within range) : {}", b.mnemonic, c.d, o.brief()), replay: chk.to_json() }),
            }
        }
        Expect::Fail { .. } => {
            if in_range {
                ev.discarded += 1;
                ev.class("harness-inconsistent");
                return Ok(());
            }
            ev.class("unreachable");
            let chk = Check::MustFail { src: text.clone(), token: None };
            chk.eval().map_err(|why| Violation { sig: format!("c03:{}:unreachable-accepted", b.mnemonic), what: format!("{} with displacement {} (outside range): {}", b.mnemonic, c.d, why), replay: chk.to_json() })
        }
        Expect::Unsure(_) => {
            ev.discarded += 1;
            Ok(())
        }
    }
}

fn distances(lim: i64) -> Vec<i64> {
    let mut v = vec![0, 1, -1, 2, -2, 5, -7];
    for x in -3..=3 {
        v.push(lim - 1 + x);
        v.push(-lim + x);
    }
    // distances congruent to reachable ones modulo the field size and modulo 2^8 / 2^16
    // (a truncating cast or a missing range check makes them look reachable)
    for base in [0, 1, -1, lim - 1, -lim] {
        for m in [2 * lim, 4 * lim, 256, 65536, 131072] {
            v.push(base + m);
            v.push(base - m);
        }
    }
    v
}

/// Make the case a reachable one (used where only valid programs are wanted).
pub fn clamp_reachable(mut c: RelCase) -> RelCase {
    let ks = kinds();
    let lim = limit(&ks[c.kind % ks.len()]);
    if !(-lim..lim).contains(&c.d) {
        c.d %= lim;
    }
    c
}

pub fn rel_case() -> impl Strategy<Value = RelCase> {
    (0usize..22, 0u8..8, 0u8..11, -4000i64..4000, any::<u8>(), proptest::collection::vec(any::<u8>(), 0..12), 0u8..6, any::<u8>(), gen::style(), 0u8..8).prop_map(|(kind, s, near_far, off, prefix, filler, spelling, k, style, dev)| {
        let ks = kinds();
        let lim = limit(&ks[kind % ks.len()]);
        let d = match near_far {
            0..=2 => (if off < 0 { -lim } else { lim - 1 }) + off % 6,
            3..=7 => off % lim,
            8 | 9 => off % (lim + 300),
            _ => (off % lim) + [2 * lim, -2 * lim, 256, -256, 65536, -65536][(off.unsigned_abs() % 6) as usize],
        };
        // devices with small flash only for distances that fit
        let dev = if dev >= 4 { 0 } else { dev };
        let dev = if dev == 1 && d.abs() > 800 { 0 } else if dev == 2 && d.abs() > 3500 { 0 } else { dev };
        RelCase { kind, s, d, prefix, filler, spelling, k, dev, style }
    })
}

pub fn run(ctx: &Ctx) -> Result<Ev, String> {
    let opts = ModelOpts { devices: model::model_devices() };
    // deterministic part: every kind × boundary distances × 4 fillers × 4 spellings
    let mut det: Vec<RelCase> = vec![];
    let fillers: Vec<Vec<u8>> = vec![vec![], vec![2, 4, 0, 3], vec![12, 5, 7, 2, 44], vec![6, 3, 4 | 8, 1]];
    for kind in 0..kinds().len() {
        let lim = limit(&kinds()[kind]);
        for d in distances(lim) {
            for (fi, f) in fillers.iter().enumerate() {
                let dev = if d.abs() < 700 { (fi % 4) as u8 } else { 0 };
                det.push(RelCase { kind, s: (kind % 8) as u8, d, prefix: (3 + fi * 5) as u8, filler: f.clone(), spelling: (fi + d.unsigned_abs() as usize) as u8 % 6, k: (fi * 3) as u8, dev, style: Style::CANON });
            }
        }
    }
    let mut total = Ev::new("C03");
    for c in &det {
        if let Err(v) = test(c, &mut total, &opts) {
            total.violation(v);
        }
    }
    total.class_n("deterministic-boundary-cases", det.len() as u64);
    let shards = 32usize;
    let per = (if ctx.thorough { 1_500_000 } else { 120_000 } / shards) as u32;
    let seed = ctx.seed;
    let ev = par::run_shards("C03", shards, |s| par::prop_shard("C03", seed, s, per, &rel_case(), |c, ev| test(c, ev, &opts)));
    total.merge(ev);
    if total.classes.get("harness-inconsistent").copied().unwrap_or(0) > 0 {
        return Err(format!("C03 construction inconsistent with its own model in {} cases", total.classes["harness-inconsistent"]));
    }
    // targets whose distance does not even fit 32 bits cannot be placed by a label: they are written
    // as numbers and as pc-relative expressions, and they are unreachable — also the ones that are
    // congruent to a reachable distance modulo 2^32
    {
        let ks = kinds();
        for (ki, m) in ks.iter().enumerate() {
            let lim: i64 = if m == "rjmp" || m == "rcall" { 2048 } else { 64 };
            for base in [1i64 << 32, -(1i64 << 32), 1 << 33, 1 << 40, -(1i64 << 48), i64::MAX - 5000, i64::MIN + 5000] {
                for d in [0i64, 5, -3, lim - 1, -lim] {
                    let dist = base.wrapping_add(d);
                    let pfx = if m == "brbs" || m == "brbc" { format!("{}, ", ki % 8) } else { String::new() };
                    let off = dist.wrapping_add(1); // target = pc + 1 + d, instruction at word 2
                    let target = off.wrapping_add(2);
                    for (sp, operand) in [("number", format!("{}", target)), ("pc-relative", if off >= 0 { format!("pc+{}", off) } else { format!("pc-{}", (off as i128).unsigned_abs()) }), ("label-relative", if target >= 0 { format!("c03_far+{}", target) } else { format!("c03_far-{}", (target as i128).unsigned_abs()) })] {
                        let src = format!("c03_far: nop\nnop\n{} {}{}\nnop\n", m, pfx, operand);
                        total.eval();
                        total.class("distance-beyond-32-bits");
                        total.class("unreachable");
                        total.nt(fp(&src));
                        let chk = Check::MustFail { src: src.clone(), token: None };
                        if let Err(why) = chk.eval() {
                            total.violation(Violation { sig: format!("c03:{}:far-{}:unreachable-accepted", m, sp), what: format!("`{}`: {}", src.replace('\n', " | "), why), replay: chk.to_json() });
                        }
                    }
                }
            }
        }
    }
    for required in ["within-2-of-a-limit", "filler-two-word", "filler-odd-db", "filler-org-gap", "reachable", "unreachable", "spelling:label-k"] {
        if !total.has_violation() && total.classes.get(required).copied().unwrap_or(0) == 0 {
            return Err(format!("generator degenerate: class {} never produced", required));
        }
    }
    Ok(total)
}

pub fn rule() -> String {
    "kind in 18 br* + brbs/brbc s + rjmp + rcall; signed distance d from {both limits ±3, 0, ±1, ±2, random within ±(range+300)}; filler between instruction and target built from one-word and two-word instructions, odd/even .db, .dw lists and .org gaps with exactly d (forward) or -d-1 (backward) words; target written as label, pc±k, label+k or label-k; random prefix so the instruction is not at address 0. Deterministic part: every kind × every boundary distance × 4 fillers; plus proptest cases. Non-trivial = |d - limit| ≤ 2 for either limit, or a filler containing a two-word item, an odd .db or an .org gap; distinct = distinct program text".into()
}
