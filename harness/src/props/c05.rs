//! C05 — constant expressions evaluate with the documented operator semantics.
//!
//! (a) grid: every binary operator × 30×30 boundary operands, every unary operator and function
//!     × 30 operands;  (b) proptest expression trees over literals (five radices + character),
//!     `.equ` symbols defined before/after and labels, rendered with only the parentheses the
//!     documented precedence table requires.  Observed through `.dq <expr>`.

use crate::ast::*;
use crate::evidence::{fp, Ev, Violation};
use crate::gen::{self, ExprCtx};
use crate::model::{self, EvalErr, Expect, ModelOpts};
use crate::oracle::Check;
use crate::par;
use crate::render::{paren_stats, render, render_expr, Style, D_CASE_FN, D_RADIX, D_SPACE};
use crate::Ctx;
use proptest::prelude::*;
use serde_json::json;

fn grid_values() -> Vec<i64> {
    let mut v: Vec<i64> = vec![0, 1, -1, 2, -2, 63, 64, 65, -63, -64];
    for k in [7u32, 8, 15, 16, 31, 32, 62] {
        v.push((1i64 << k) - 1);
        v.push(1i64 << k);
        v.push(-(1i64 << k));
    }
    v.push(i64::MAX);
    v.push(i64::MIN);
    v.push(i64::MIN + 1);
    v.sort();
    v.dedup();
    v
}

fn op_sig(e: &E) -> String {
    // signature = the set of operators/functions in the (shrunk) failing expression
    let mut ops: Vec<String> = vec![];
    e.visit(&mut |x| match x {
        E::Bin(o, _, _) => ops.push(o.text().to_string()),
        E::Un(o, _) => ops.push(format!("u{}", o.text())),
        E::Fn(f, _) => ops.push(f.text().to_string()),
        _ => {}
    });
    ops.sort();
    ops.dedup();
    if ops.len() > 3 {
        ops.truncate(3);
        ops.push("…".into());
    }
    ops.join(",")
}

fn check_closed(e: &E, text: &str, ev: &mut Ev, leg: &str) {
    ev.eval();
    let src = format!(".dq {}", text);
    let (chk, class) = match model::eval_closed(e) {
        Ok(v) => (Check::image_code(src.clone(), v.to_le_bytes().to_vec()), "value"),
        Err(EvalErr::Fail(_)) => (Check::MustFail { src: src.clone(), token: None }, "must-fail"),
        Err(EvalErr::Unsure(_)) => {
            ev.class(&format!("{}:tolerated", leg));
            // documentation silent: only "no panic" is demanded
            (Check::NoPanic { src: src.clone() }, "tolerated")
        }
    };
    ev.class(&format!("{}:{}", leg, class));
    ev.nt(fp(&src));
    if let Err(why) = chk.eval() {
        let kind = if why.contains("anic") { "panic" } else if class == "must-fail" { "accepted" } else { "wrong-value" };
        ev.violation(Violation { sig: format!("c05:{}:{}:{}", leg, op_sig(e), kind), what: format!("`{}`: {}", src, why), replay: chk.to_json() });
    }
}

fn grid(ev: &mut Ev) {
    let vals = grid_values();
    for op in ALL_BINOPS {
        for a in &vals {
            for b in &vals {
                let e = E::bin(*op, E::num(*a), E::num(*b));
                let t = render_expr(&e, Style::CANON);
                check_closed(&e, &t, ev, "grid");
            }
        }
    }
    for op in [UnOp::Neg, UnOp::Not, UnOp::Inv] {
        for a in &vals {
            let e = E::un(op, E::num(*a));
            let t = render_expr(&e, Style::CANON);
            check_closed(&e, &t, ev, "grid");
            // unary operators bind tighter than every binary operator: `~a*3`, `!a+1`, `-a%5`
            for (bop, c) in [(BinOp::Mul, 3i64), (BinOp::Add, 1), (BinOp::Rem, 5), (BinOp::Shl, 2), (BinOp::And, 0xff), (BinOp::Eq, 0)] {
                if *a >= 0 {
                    let e2 = E::bin(bop, E::un(op, E::num(*a)), E::num(c));
                    let t2 = render_expr(&e2, Style::CANON);
                    check_closed(&e2, &t2, ev, "grid");
                }
            }
        }
    }
    for f in ALL_FUNCS {
        for a in &vals {
            let e = E::Fn(*f, Box::new(E::num(*a)));
            let t = render_expr(&e, Style::CANON);
            check_closed(&e, &t, ev, "grid");
        }
    }
    // literal spellings
    for v in gen::boundary_values() {
        for seed in 0..12u64 {
            let e = E::Num(v);
            let t = render_expr(&e, Style { seed, dims: D_RADIX });
            check_closed(&e, &t, ev, "literal");
        }
    }
    for c in 0x20u8..0x7f {
        if c != b'\'' {
            let e = E::Chr(c);
            check_closed(&e, &format!("'{}'", c as char), ev, "literal");
        }
    }
}

#[derive(Clone, Debug)]
pub struct TreeCase {
    pub names: Vec<String>,
    /// (value, defined before the use?)
    pub equs: Vec<(i64, bool)>,
    pub nlabels: usize,
    pub e: E,
    pub style: Style,
}

pub fn tree_case() -> impl Strategy<Value = TreeCase> {
    (gen::names(5), proptest::collection::vec((gen::lit_value(), any::<bool>(), any::<bool>()), 3), 0usize..3, any::<u64>())
        .prop_flat_map(|(names, eq, nlabels, sseed)| {
            let ctx = ExprCtx { syms: names.clone(), pc: false, args: 0 };
            let equs: Vec<(i64, bool)> = eq.iter().map(|(v, neg, before)| (if *neg { -*v } else { *v }, *before)).collect();
            (Just(names), Just(equs), Just(nlabels), gen::expr(&ctx, 5), Just(sseed), 0u32..8)
        })
        .prop_map(|(names, equs, nlabels, e, sseed, dimsel)| {
            let dims = (if dimsel & 1 != 0 { D_RADIX } else { 0 }) | (if dimsel & 2 != 0 { D_SPACE } else { 0 }) | (if dimsel & 4 != 0 { D_CASE_FN } else { 0 });
            TreeCase { names, equs, nlabels: nlabels.max(0), e, style: Style { seed: sseed, dims } }
        })
}

/// names[0..3] are .equ symbols, names[3..5] are labels (each in front of a `nop`).
pub fn program(c: &TreeCase) -> Vec<Ln> {
    let mut p = vec![];
    for (i, (v, before)) in c.equs.iter().enumerate() {
        if *before {
            p.push(Ln::st(St::Equ(c.names[i].clone(), E::num(*v))));
        }
    }
    for i in 0..2 {
        // labels at word addresses 0/1 .. ; both always defined so every symbol resolves
        p.push(Ln::with_label(&c.names[3 + i], St::Ins("nop".into(), vec![])));
        for _ in 0..c.nlabels {
            p.push(Ln::st(St::Ins("nop".into(), vec![])));
        }
    }
    p.push(Ln::st(St::Data(DKind::Dq, vec![DItem::Ex(c.e.clone())])));
    for (i, (v, before)) in c.equs.iter().enumerate() {
        if !*before {
            p.push(Ln::st(St::Equ(c.names[i].clone(), E::num(*v))));
        }
    }
    p
}

pub fn test_tree(c: &TreeCase, ev: &mut Ev, opts: &ModelOpts) -> Result<(), Violation> {
    ev.eval();
    let prog = program(c);
    let text = render(&prog, c.style).text;
    let (exp, _) = model::assemble(&prog, opts);
    let (omitted, interesting) = paren_stats(&c.e);
    if omitted > 0 && interesting {
        ev.nt(fp(&text));
        ev.class("tree:omits-parentheses");
    }
    let chk = match &exp {
        Expect::Ok(img) => {
            ev.class("tree:value");
            Check::image_code(text.clone(), img.code.clone())
        }
        Expect::Fail { .. } => {
            ev.class("tree:must-fail");
            Check::MustFail { src: text.clone(), token: None }
        }
        Expect::Unsure(_) => {
            ev.class("tree:tolerated");
            Check::NoPanic { src: text.clone() }
        }
    };
    if ev.samples.len() < 3 {
        ev.samples.push(json!({"program": text, "expect": match &exp { Expect::Ok(i) => format!("value bytes {}", crate::run::hex(&i.code[i.code.len().saturating_sub(8)..], 8)), Expect::Fail{reason,..} => format!("must fail: {}", reason), Expect::Unsure(r) => format!("tolerated: {}", r)}}));
    }
    match chk.eval() {
        Ok(()) => {}
        Err(why) => {
            let kind = if why.contains("anic") { "panic" } else if matches!(exp, Expect::Fail { .. }) { "accepted" } else if why.contains("Err(") { "rejected" } else { "wrong-value" };
            return Err(Violation { sig: format!("c05:tree:{}:{}", op_sig(&c.e), kind), what: format!("expr `{}`: {}", render_expr(&c.e, Style::CANON), why), replay: chk.to_json() });
        }
    }
    // every eighth tree also goes through a macro: the operands of its root are the arguments, the
    // root operator stands in the body — the value (or the failure) must be the same
    if ev.evaluations % 8 == 3 {
        let (body, args): (E, Vec<E>) = match &c.e {
            // (an atomic left operand stays in the body half of the time: literals of every kind occur in bodies)
            E::Bin(op, a, b) if a.is_atom() && ev.evaluations % 16 == 11 => (E::Bin(*op, a.clone(), Box::new(E::Arg(0))), vec![(**b).clone()]),
            E::Bin(op, a, b) => (E::Bin(*op, Box::new(E::Arg(0)), Box::new(E::Arg(1))), vec![(**a).clone(), (**b).clone()]),
            E::Un(op, a) => (E::Un(*op, Box::new(E::Arg(0))), vec![(**a).clone()]),
            other => (E::Arg(0), vec![other.clone()]),
        };
        let mut prog2: Vec<Ln> = vec![];
        for l in prog.iter() {
            if matches!(&l.st, Some(St::Data(DKind::Dq, _))) {
                prog2.push(Ln::st(St::MacroDef("c05_eval".into(), vec![Ln::st(St::Data(DKind::Dq, vec![DItem::Ex(body.clone())]))])));
                prog2.push(Ln::st(St::Call("C05_Eval".into(), args.iter().map(|a| Opnd::Ex(a.clone())).collect())));
            } else {
                prog2.push(l.clone());
            }
        }
        let text2 = render(&prog2, c.style).text;
        ev.class("tree:through-macro");
        let chk2 = match &exp {
            Expect::Ok(img) => Check::image_code(text2.clone(), img.code.clone()),
            Expect::Fail { .. } => Check::MustFail { src: text2.clone(), token: None },
            Expect::Unsure(_) => Check::NoPanic { src: text2.clone() },
        };
        if let Err(why) = chk2.eval() {
            let kind = if why.contains("anic") { "panic" } else if matches!(exp, Expect::Fail { .. }) { "accepted" } else if why.contains("Err(") { "rejected" } else { "wrong-value" };
            return Err(Violation { sig: format!("c05:tree-through-macro:{}:{}", op_sig(&c.e), kind), what: format!("expr `{}` with its root operator in a macro body and the operands as arguments: {}", render_expr(&c.e, Style::CANON), why), replay: chk2.to_json() });
        }
    }
    Ok(())
}

/// Programs in which far more expression nodes are evaluated than in any generated case: long
/// tables of sums, and symbols that are costly to evaluate (a chain of doublings, far below the
/// tool's limit for a single expression) used several times per line and on many lines.  Values are
/// known by construction.  (tag, source, flash image, EEPROM image)
pub fn scale_programs() -> Vec<(String, String, Vec<u8>, Vec<u8>)> {
    let mut v = vec![];
    // a table of sums: n lines `.dq 1+1+…+1` (k ones)
    for (n, k) in [(3000usize, 100usize), (8000, 115)] {
        let mut src = String::new();
        let mut code = vec![];
        for i in 0..n {
            let kk = k + i % 7;
            src.push_str(&format!(".dq 1{}\n", "+1".repeat(kk - 1)));
            code.extend_from_slice(&(kk as u64).to_le_bytes());
        }
        v.push((format!("table-of-{}-sums-of-{}-terms", n, k), src, code, vec![]));
    }
    // a costly symbol: c_i = c_(i-1) + c_(i-1), value 2^depth, about 3·2^depth nodes per use
    for (depth, per_line, lines) in [(12usize, 8usize, 20usize), (14, 8, 4), (14, 1, 30), (16, 6, 2)] {
        let chain: String = ".equ cs0 = 1\n".to_string() + &(1..=depth).map(|i| format!(".equ cs{} = cs{}+cs{}\n", i, i - 1, i - 1)).collect::<String>();
        let val = 1u64 << depth;
        let mut src = chain.clone();
        let (mut code, mut ee) = (vec![], vec![]);
        for l in 0..lines {
            let ops: Vec<String> = (0..per_line).map(|j| format!("cs{}+{}", depth, (l + j) % 5)).collect();
            src.push_str(&format!(".dd {}\n", ops.join(", ")));
            for j in 0..per_line {
                code.extend_from_slice(&((val + ((l + j) % 5) as u64) as u32).to_le_bytes());
            }
        }
        src.push_str(".eseg\n");
        for l in 0..lines {
            let ops: Vec<String> = (0..per_line).map(|j| format!("cs{}-{}", depth, (l * 3 + j) % 4)).collect();
            src.push_str(&format!(".dq {}\n", ops.join(", ")));
            for j in 0..per_line {
                ee.extend_from_slice(&(val - ((l * 3 + j) % 4) as u64).to_le_bytes());
            }
        }
        v.push((format!("costly-symbol-depth-{}-used-{}-times-per-line-on-{}-lines", depth, per_line, lines), src, code, ee));
    }
    v
}

pub fn scale_leg(total: &mut Ev, sig_prefix: &str) {
    use rayon::prelude::*;
    let progs = scale_programs();
    let results: Vec<(String, String, Result<(), String>, serde_json::Value)> = progs
        .into_par_iter()
        .map(|(tag, src, code, ee)| {
            let chk = crate::oracle::Check::Image { src: src.clone(), code: Some(code), eeprom: Some(ee), ram_filling: None, sizes: None, messages: None };
            let r = chk.eval();
            (tag, src, r, chk.to_json())
        })
        .collect();
    for (tag, src, r, replay) in results {
        total.eval();
        total.class("many-evaluated-nodes-in-one-build");
        total.nt(fp(&src));
        if let Err(why) = r {
            total.violation(Violation { sig: format!("{}:scale:{}", sig_prefix, if why.contains("differs") { "wrong-value" } else { "rejected" }), what: format!("[{}] {}", tag, crate::run::truncate(&why, 300)), replay });
        }
    }
}

pub fn run(ctx: &Ctx) -> Result<Ev, String> {
    let mut total = Ev::new("C05");
    grid(&mut total);
    scale_leg(&mut total, "c05");
    let opts = ModelOpts { devices: vec![] };
    let shards = 32;
    let per = if ctx.thorough { 6_000_000 / shards } else { 400_000 / shards } as u32;
    let seed = ctx.seed;
    let ev = par::run_shards("C05", shards, |s| par::prop_shard("C05", seed, s, per, &tree_case(), |c, ev| test_tree(c, ev, &opts)));
    total.merge(ev);
    let ok = *total.classes.get("tree:value").unwrap_or(&0);
    let all = total.classes.iter().filter(|(k, _)| k.starts_with("tree:") && *k != "tree:omits-parentheses").map(|(_, v)| *v).sum::<u64>();
    if !total.has_violation() && all > 0 && ok * 100 < all * 40 {
        return Err(format!("generator degenerate: only {}/{} trees evaluate to a value", ok, all));
    }
    Ok(total)
}

pub fn rule() -> String {
    "grid: each of the 18 binary operators × 30×30 boundary operands (0, ±1, ±2, 2^k, 2^k±1, i64 min/max, shift counts around 63/64), 3 unary operators (alone and in front of a tighter/looser binary operator) and 8 functions × 30, every literal spelling of boundary values, every printable character literal; trees: proptest expression trees (depth ≤ 5) over literals, .equ symbols defined before/after the use and labels, rendered with minimal parentheses under a generated style (radix, spacing, function-name case); every eighth tree additionally with its root operator in a macro body and the root's operands passed as arguments. Non-trivial = every grid point, plus trees whose minimal rendering omits at least one parenthesis pair that full parenthesisation would contain and that mix precedence levels / have a same-level right-nested pair / a unary operand; distinct = distinct program text".into()
}
