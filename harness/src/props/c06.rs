//! C06 — data directives emit exactly the bytes written, little-endian, exact width.

use crate::ast::*;
use crate::evidence::{fp, Ev, Violation};
use crate::gen;
use crate::model::{self, Expect, ModelOpts};
use crate::oracle::Check;
use crate::par;
use crate::render::{render, Style};
use crate::Ctx;
use proptest::prelude::*;
use serde_json::json;

#[derive(Clone, Debug)]
pub enum RawVal {
    /// boundary pick: (end: 0 = low end, 1 = high end, 2 = around zero), offset -2..=2
    Edge(u8, i8),
    /// uniformly inside the range (fraction of the span)
    Inside(u64),
    Str(String),
    Label,
}

#[derive(Clone, Debug)]
pub struct RawLine {
    pub kind: u8,
    pub label: bool,
    pub vals: Vec<(RawVal, u8)>,
}

#[derive(Clone, Debug)]
pub enum Fault {
    None,
    OutOfRange(u16, bool),
    StringInWord(u16),
    DataInDseg(u16),
    ByteInCseg(u16),
    /// a literal beyond 64 bits (any width but .dq must reject it; .dq may take it as unsigned)
    HugeLiteral(u16, u8),
}

#[derive(Clone, Debug)]
pub struct RawData {
    pub blocks: Vec<(bool, Vec<RawLine>, Option<u8>)>,
    pub names: Vec<String>,
    pub fault: Fault,
    pub style: Style,
}

fn raw_val() -> impl Strategy<Value = RawVal> {
    prop_oneof![
        5 => (0u8..3, -2i8..=2).prop_map(|(e, o)| RawVal::Edge(e, o)),
        3 => any::<u64>().prop_map(RawVal::Inside),
        3 => gen::string_content().prop_map(RawVal::Str),
        1 => Just(RawVal::Label),
    ]
}

fn raw_line() -> impl Strategy<Value = RawLine> {
    (0u8..4, any::<bool>(), proptest::collection::vec((raw_val(), any::<u8>()), 1..8)).prop_map(|(kind, label, vals)| RawLine { kind, label, vals })
}

pub fn raw_data() -> impl Strategy<Value = RawData> {
    let fault = prop_oneof![
        6 => Just(Fault::None),
        2 => (any::<u16>(), any::<bool>()).prop_map(|(i, hi)| Fault::OutOfRange(i, hi)),
        1 => any::<u16>().prop_map(Fault::StringInWord),
        1 => any::<u16>().prop_map(Fault::DataInDseg),
        1 => any::<u16>().prop_map(Fault::ByteInCseg),
        1 => (any::<u16>(), any::<u8>()).prop_map(|(i, w)| Fault::HugeLiteral(i, w)),
    ];
    (proptest::collection::vec((any::<bool>(), proptest::collection::vec(raw_line(), 1..5), proptest::option::weighted(0.3, 0u8..20)), 1..4), gen::names(40), fault, gen::style())
        .prop_map(|(blocks, names, fault, style)| RawData { blocks, names, fault, style })
}

#[derive(Default)]
pub struct Shape {
    pub mixes_string_and_number: bool,
    pub boundary_value: bool,
    pub odd_db_followed_by_data: bool,
    pub eeprom: bool,
    pub non_ascii: bool,
    pub fault: &'static str,
}

pub fn build(r: &RawData) -> (Vec<Ln>, Shape) {
    let mut shape = Shape::default();
    let mut prog: Vec<Ln> = vec![];
    let mut tail: Vec<Ln> = vec![];
    let mut ni = 0usize;
    let mut fresh = |names: &Vec<String>| {
        // (beyond the pool the names get a suffix no pool name can have: one name is never handed out twice)
        let n = if ni < names.len() { names[ni].clone() } else { format!("{}w{}", names[ni % names.len()], ni / names.len()) };
        ni += 1;
        n
    };
    let mut labels: Vec<String> = vec![];
    let total_lines: usize = r.blocks.iter().map(|b| b.1.len()).sum();
    let fault_line = |i: u16| gen::idx(i, total_lines.max(1));
    let mut line_no = 0usize;
    let mut prev_odd_db = false;
    for (ee, lines, byte) in &r.blocks {
        let seg = if *ee { Seg::Eeprom } else { Seg::Code };
        if *ee {
            shape.eeprom = true;
        }
        prog.push(Ln::st(St::Seg(seg)));
        prev_odd_db = false;
        for l in lines {
            let mut kind = [DKind::Db, DKind::Dw, DKind::Dd, DKind::Dq][l.kind as usize % 4];
            // fault selection for this line
            let this_fault = match &r.fault {
                Fault::OutOfRange(i, _) | Fault::StringInWord(i) | Fault::DataInDseg(i) | Fault::ByteInCseg(i) | Fault::HugeLiteral(i, _) => fault_line(*i) == line_no,
                Fault::None => false,
            };
            if this_fault {
                match &r.fault {
                    Fault::OutOfRange(_, _) if kind == DKind::Dq => kind = DKind::Dd,
                    Fault::HugeLiteral(_, _) if kind == DKind::Dq => kind = DKind::Dw,
                    Fault::StringInWord(_) if kind == DKind::Db => kind = DKind::Dw,
                    _ => {}
                }
            }
            let (lo, hi) = model::data_range(kind);
            let mut items: Vec<DItem> = vec![];
            let mut has_str = false;
            let mut has_num = false;
            let mut bytes = 0usize;
            for (v, how) in &l.vals {
                let value: Option<i64> = match v {
                    RawVal::Edge(e, o) => {
                        let base = match e {
                            0 => lo,
                            1 => hi,
                            _ => 0,
                        };
                        // stay inside the range: mirror offsets that would leave it
                        let x = base.saturating_add(*o as i64);
                        let x = if x < lo { lo + (lo - x) } else if x > hi { hi - (x - hi) } else { x };
                        shape.boundary_value = true;
                        Some(x)
                    }
                    RawVal::Inside(f) => {
                        if kind == DKind::Dq {
                            Some(*f as i64)
                        } else {
                            let span = (hi - lo) as u128 + 1;
                            Some(lo + ((*f as u128 * span) >> 64) as i64)
                        }
                    }
                    RawVal::Str(s) => {
                        if kind == DKind::Db {
                            has_str = true;
                            if !s.is_ascii() {
                                shape.non_ascii = true;
                            }
                            bytes += s.as_bytes().len();
                            items.push(DItem::Str(s.clone()));
                            None
                        } else {
                            Some(s.len() as i64)
                        }
                    }
                    RawVal::Label => {
                        if let Some(l) = labels.last() {
                            has_num = true;
                            bytes += kind.width();
                            // a label value is small and non-negative: fits every width but .db in
                            // long programs; keep .db to low()
                            if kind == DKind::Db {
                                items.push(DItem::Ex(E::Fn(Func::Low, Box::new(E::Sym(l.clone())))));
                            } else {
                                items.push(DItem::Ex(E::Sym(l.clone())));
                            }
                            None
                        } else {
                            Some(0)
                        }
                    }
                };
                if let Some(x) = value {
                    has_num = true;
                    bytes += kind.width();
                    let e = match how % 4 {
                        0 | 1 => E::num(x),
                        2 => {
                            // through an .equ defined after all data (forward reference)
                            let n = fresh(&r.names);
                            tail.push(Ln::st(St::Equ(n.clone(), E::num(x))));
                            E::Sym(n)
                        }
                        _ => {
                            if x > 4 && x < i64::MAX - 4 {
                                E::bin(BinOp::Add, E::num(x - 3), E::Num(3))
                            } else {
                                E::num(x)
                            }
                        }
                    };
                    items.push(DItem::Ex(e));
                }
            }
            if this_fault {
                match &r.fault {
                    Fault::OutOfRange(_, high) => {
                        // just beyond the end, or a legal value moved by the size of the field / a power of
                        // two a truncating conversion would drop
                        let far = [0i64, 0, 1 << 8, 1 << 16, 1 << 32, 1 << 40, (hi - lo + 1).max(1)][line_no % 7];
                        let bad = if far == 0 {
                            if *high { hi + 1 + (line_no as i64 % 3) } else { lo - 1 - (line_no as i64 % 3) }
                        } else {
                            let legal = [lo, -1, 0, 1, hi][(line_no / 7) % 5].clamp(lo, hi);
                            let cand = if *high { legal.saturating_add(far) } else { legal.saturating_sub(far) };
                            if cand >= lo && cand <= hi { if *high { hi + 1 } else { lo - 1 } } else { cand }
                        };
                        let at = items.len() / 2;
                        items.insert(at, DItem::Ex(E::num(bad)));
                        shape.fault = "value-out-of-range";
                    }
                    Fault::HugeLiteral(_, w) => {
                        const HUGE: &[&str] = &["0xFFFFFFFFFFFFFFFF", "0x8000000000000000", "$ffffffffffffffff", "18446744073709551615", "9223372036854775808", "0xFFFFFFFFFFFFFF80", "0x10000000000000000", "0b1111111111111111111111111111111111111111111111111111111111111111", "01777777777777777777777", "99999999999999999999"];
                        let at = items.len() / 2;
                        items.insert(at, DItem::Ex(E::Big(HUGE[*w as usize % HUGE.len()].to_string())));
                        shape.fault = "literal-beyond-64-bits";
                    }
                    Fault::StringInWord(_) => {
                        let at = items.len() / 2;
                        items.insert(at, DItem::Str("ab".into()));
                        shape.fault = "string-in-word-directive";
                    }
                    Fault::DataInDseg(_) => {
                        prog.push(Ln::st(St::Seg(Seg::Data)));
                        shape.fault = "data-directive-in-dseg";
                    }
                    Fault::ByteInCseg(_) => {
                        prog.push(Ln::st(St::Seg(Seg::Code)));
                        prog.push(Ln::st(St::Byte(E::Num(2))));
                        shape.fault = "byte-in-cseg";
                    }
                    Fault::None => {}
                }
            }
            if has_str && has_num {
                shape.mixes_string_and_number = true;
            }
            if prev_odd_db {
                shape.odd_db_followed_by_data = true;
            }
            prev_odd_db = kind == DKind::Db && bytes % 2 == 1;
            let st = St::Data(kind, items);
            if l.label {
                let n = fresh(&r.names);
                labels.push(n.clone());
                prog.push(Ln::with_label(&n, st));
            } else {
                prog.push(Ln::st(st));
            }
            line_no += 1;
        }
        if let (true, Some(n)) = (*ee, byte) {
            prog.push(Ln::st(St::Byte(E::Num(*n as i64))));
            prog.push(Ln::st(St::Data(DKind::Db, vec![DItem::Ex(E::Num(0xa5))])));
        }
    }
    let _ = prev_odd_db;
    prog.extend(tail);
    (prog, shape)
}

pub fn test(r: &RawData, ev: &mut Ev, opts: &ModelOpts) -> Result<(), Violation> {
    ev.eval();
    let (prog, shape) = build(r);
    let text = render(&prog, r.style).text;
    let (exp, _) = model::assemble(&prog, opts);
    for (c, on) in [
        ("mixes-string-and-number", shape.mixes_string_and_number),
        ("boundary-value", shape.boundary_value),
        ("odd-db-followed-by-data", shape.odd_db_followed_by_data),
        ("eeprom-block", shape.eeprom),
        ("non-ascii-string", shape.non_ascii),
    ] {
        if on {
            ev.class(c);
        }
    }
    if shape.mixes_string_and_number || shape.boundary_value || shape.odd_db_followed_by_data || !shape.fault.is_empty() {
        ev.nt(fp(&text));
    }
    let (chk, class) = match &exp {
        Expect::Ok(img) => {
            if !shape.fault.is_empty() {
                // the generator intended a fault but the model accepts: harness inconsistency, not a verdict
                ev.discarded += 1;
                return Ok(());
            }
            (Check::Image { src: text.clone(), code: Some(img.code.clone()), eeprom: Some(img.eeprom.clone()), ram_filling: None, sizes: None, messages: None }, "valid".to_string())
        }
        Expect::Fail { .. } => {
            if shape.fault.is_empty() {
                ev.discarded += 1;
                return Ok(());
            }
            (Check::MustFail { src: text.clone(), token: None }, format!("fault:{}", shape.fault))
        }
        Expect::Unsure(_) => {
            ev.discarded += 1;
            return Ok(());
        }
    };
    ev.class(&class);
    if ev.samples.len() < 2 {
        ev.samples.push(json!({"program": text, "class": class}));
    }
    chk.eval().map_err(|why| {
        let part = if why.contains("anic") { "panic" } else if class.starts_with("fault") { "accepted" } else if why.starts_with("code") { "code" } else if why.starts_with("eeprom") { "eeprom" } else { "rejected" };
        Violation { sig: format!("c06:{}:{}", class, part), what: why, replay: chk.to_json() }
    })
}

pub fn run(ctx: &Ctx) -> Result<Ev, String> {
    let opts = ModelOpts { devices: vec![] };
    let shards = 32usize;
    let per = (if ctx.thorough { 1_500_000 } else { 120_000 } / shards) as u32;
    let seed = ctx.seed;
    let mut total = par::run_shards("C06", shards, |s| par::prop_shard("C06", seed, s, per, &raw_data(), |c, ev| test(c, ev, &opts)));
    // long tables and data lines whose operands are costly to evaluate (values known by construction)
    crate::props::c05::scale_leg(&mut total, "c06");
    if total.discarded * 20 > total.evaluations {
        return Err(format!("generator unsound: {} of {} programs inconsistent with the model's judgement", total.discarded, total.evaluations));
    }
    for required in ["mixes-string-and-number", "boundary-value", "odd-db-followed-by-data", "eeprom-block", "non-ascii-string", "fault:value-out-of-range", "fault:literal-beyond-64-bits", "fault:string-in-word-directive", "fault:data-directive-in-dseg", "fault:byte-in-cseg"] {
        if !total.has_violation() && total.classes.get(required).copied().unwrap_or(0) == 0 {
            return Err(format!("generator degenerate: class {} never produced", required));
        }
    }
    Ok(total)
}

pub fn rule() -> String {
    "proptest: 1–3 blocks (.cseg or .eseg) of 1–4 data lines, directive in db/dw/dd/dq, 1–7 operands mixing literals, forward-referenced .equ symbols, sums, labels and (for .db) strings incl. empty, hostile-ASCII and multi-byte UTF-8; values concentrated within ±2 of both ends of each width's accepted range and around 0; .byte n in EEPROM; fault variants with exactly one fault (value one to three beyond either end, string in a word directive, data directive in .dseg, .byte in .cseg) must fail. Non-trivial = a line mixing a string and a number, or a boundary value, or an odd-length .db followed by more data, or a fault variant; distinct = distinct program text".into()
}
