//! C10 — symbols resolve by the documented binding rules or the build fails.

use crate::ast::*;
use crate::evidence::{fp, Ev, Violation};
use crate::gen::{self, recase};
use crate::model::{self, Expect, ModelOpts};
use crate::oracle::Check;
use crate::par;
use crate::render::{render, Style, D_CASE_SYM};
use crate::Ctx;
use proptest::prelude::*;
use serde_json::json;

#[derive(Clone, Debug)]
pub struct RawSym {
    /// 0 code label, 1 data label, 2 eeprom label, 3 equ, 4 set, 5 def
    pub kind: u8,
    pub value: u16,
}

#[derive(Clone, Debug)]
pub struct Step {
    pub ent: u16,
    pub action: u8,
    pub how: u8,
    pub bits: u32,
}

#[derive(Clone, Debug)]
pub enum Variant {
    Valid,
    DeleteDefinition(u16),
    DuplicateLabel(u16),
    AliasOutsideScope(u16),
    SetBeforeAssignment(u16),
}

#[derive(Clone, Debug)]
pub struct RawSyms {
    pub syms: Vec<RawSym>,
    pub steps: Vec<Step>,
    pub names: Vec<String>,
    pub variant: Variant,
    pub style: Style,
}

pub fn raw_syms() -> impl Strategy<Value = RawSyms> {
    let variant = prop_oneof![
        6 => Just(Variant::Valid),
        1 => any::<u16>().prop_map(Variant::DeleteDefinition),
        1 => any::<u16>().prop_map(Variant::DuplicateLabel),
        1 => any::<u16>().prop_map(Variant::AliasOutsideScope),
        1 => any::<u16>().prop_map(Variant::SetBeforeAssignment),
    ];
    (
        proptest::collection::vec((0u8..6, any::<u16>()).prop_map(|(kind, value)| RawSym { kind, value }), 2..10),
        proptest::collection::vec((any::<u16>(), any::<u8>(), any::<u8>(), any::<u32>()).prop_map(|(ent, action, how, bits)| Step { ent, action, how, bits }), 4..28),
        gen::names(10),
        variant,
        gen::style(),
    )
        .prop_map(|(syms, steps, names, variant, mut style)| {
            // the case of every symbol occurrence is chosen by the generator itself
            style.dims &= !D_CASE_SYM;
            RawSyms { syms, steps, names, variant, style }
        })
}

#[derive(Clone, Debug, PartialEq)]
enum State {
    Fresh,
    Defined,
    Undefined, // alias after .undef
}

#[derive(Default, Debug)]
pub struct Shape {
    pub case_differs: bool,
    pub forward_ref: bool,
    pub set_reassigned_between_uses: bool,
    pub alias_used: bool,
    pub redef_after_undef: bool,
    pub directive_in_other_segment: bool,
    pub same_address_duplicate: bool,
    pub variant: &'static str,
}

pub struct Built {
    pub prog: Vec<Ln>,
    /// same program with every alias use replaced by the register
    pub no_alias: Vec<Ln>,
    pub shape: Shape,
    pub expect_fail: bool,
}

/// .set / .def / .undef also take effect while the data or the EEPROM segment is current.
fn seg_wrap(bits: u32) -> Option<Seg> {
    match (bits >> 24) % 6 {
        1 => Some(Seg::Data),
        2 => Some(Seg::Eeprom),
        _ => None,
    }
}
fn open_wrap(w: Option<Seg>, prog: &mut Vec<Ln>, na: &mut Vec<Ln>, shape: &mut Shape) {
    if let Some(s) = w {
        shape.directive_in_other_segment = true;
        prog.push(Ln::st(St::Seg(s)));
        na.push(Ln::st(St::Seg(s)));
    }
}
fn close_wrap(w: Option<Seg>, prog: &mut Vec<Ln>, na: &mut Vec<Ln>) {
    if w.is_some() {
        prog.push(Ln::st(St::Seg(Seg::Code)));
        na.push(Ln::st(St::Seg(Seg::Code)));
    }
}

pub fn build(r: &RawSyms) -> Built {
    let n = r.syms.len();
    let mut shape = Shape::default();
    let name = |i: usize| r.names[i % r.names.len()].clone();
    let mut prog: Vec<Ln> = vec![];
    let mut na: Vec<Ln> = vec![];
    let mut state = vec![State::Fresh; n];
    let mut def_line: Vec<Option<usize>> = vec![None; n];
    let mut used = vec![false; n];
    let mut used_before_def = vec![false; n];
    let mut set_uses_since_assign = vec![0usize; n];
    let mut set_assigns = vec![0usize; n];
    let mut reg_of = vec![0u8; n];
    let mut next_reg = 2u8;
    // some .equ values go through another label / .equ with a smaller index (no cycles); the
    // referenced symbol counts as used, so it is defined at the latest at the end (forward reference)
    let mut equ_ref: Vec<Option<usize>> = vec![None; n];
    for i in 1..n {
        if r.syms[i].kind == 3 && r.syms[i].value % 3 == 0 {
            let j = (r.syms[i].value as usize / 3) % i;
            if r.syms[j].kind <= 3 {
                equ_ref[i] = Some(j);
                used[j] = true;
            }
        }
    }
    let push = |prog: &mut Vec<Ln>, na: &mut Vec<Ln>, l: Ln| {
        prog.push(l.clone());
        na.push(l);
    };
    let spell = |i: usize, st: &Step, shape: &mut Shape| -> String {
        let base = name(i);
        let s = recase(&base, st.how, st.bits);
        if s != base {
            shape.case_differs = true;
        }
        s
    };
    let define = |i: usize, prog: &mut Vec<Ln>, na: &mut Vec<Ln>, spelled: &str, reg_of: &mut Vec<u8>, next_reg: &mut u8, set_assigns: &Vec<usize>| -> usize {
        let at = prog.len();
        let v = r.syms[i].value as i64;
        match r.syms[i].kind {
            0 => push(prog, na, Ln::with_label(spelled, St::Ins("nop".into(), vec![]))),
            1 => {
                push(prog, na, Ln::st(St::Seg(Seg::Data)));
                push(prog, na, Ln::with_label(spelled, St::Byte(E::Num(1 + v % 5))));
                push(prog, na, Ln::st(St::Seg(Seg::Code)));
                return at + 1;
            }
            2 => {
                push(prog, na, Ln::st(St::Seg(Seg::Eeprom)));
                push(prog, na, Ln::with_label(spelled, St::Data(DKind::Db, vec![DItem::Ex(E::Num(v % 256))])));
                push(prog, na, Ln::st(St::Seg(Seg::Code)));
                return at + 1;
            }
            3 => {
                // value possibly through another symbol (forward or backward): chosen by the caller via spelled expr
                let e = match equ_ref[i] {
                    Some(j) => E::bin(BinOp::Add, E::sym(&recase(&name(j), (v % 4) as u8, (v as u32).wrapping_mul(2654435761))), E::Num(v % 100)),
                    None => E::Num(v),
                };
                push(prog, na, Ln::st(St::Equ(spelled.to_string(), e)));
            }
            4 => {
                // value: a literal, the previous value of the same variable, or another .set variable
                // that already has a value at this point (evaluated now: later reassignments of that
                // other variable must not change this one)
                let others: Vec<usize> = (0..set_assigns.len()).filter(|j| *j != i && r.syms[*j].kind == 4 && set_assigns[*j] > 0).collect();
                let e = if set_assigns[i] > 0 && v % 3 == 0 {
                    E::bin(BinOp::Add, E::sym(spelled), E::Num(1 + v % 7))
                } else if !others.is_empty() && v % 3 == 1 {
                    let j = others[(v as usize / 3) % others.len()];
                    E::bin(BinOp::Add, E::sym(&recase(&name(j), (v % 4) as u8, (v as u32).wrapping_mul(40503))), E::Num(1 + v % 5))
                } else {
                    E::Num(v % 4000 + set_assigns[i] as i64)
                };
                push(prog, na, Ln::st(St::Set(spelled.to_string(), e)));
            }
            _ => {
                let reg = 16 + (*next_reg % 16);
                *next_reg += 1;
                reg_of[i] = reg;
                push(prog, na, Ln::st(St::Def(spelled.to_string(), reg)));
            }
        }
        at
    };
    for st in &r.steps {
        let i = gen::idx(st.ent, n);
        let kind = r.syms[i].kind;
        let sp = spell(i, st, &mut shape);
        let use_line = |kind: u8, action: u8, sp: &str, reg: u8| -> (Ln, Ln) {
            let sym = E::sym(sp);
            let l = match (kind, action % 4) {
                (5, 0) | (5, 2) => Ln::st(St::Ins("mov".into(), vec![Opnd::Alias(sp.to_string()), Opnd::Reg(action % 32)])),
                (5, 1) => Ln::st(St::Ins("ldi".into(), vec![Opnd::Alias(sp.to_string()), Opnd::Ex(E::Num(action as i64))])),
                (5, _) => Ln::st(St::Ins("add".into(), vec![Opnd::Reg(action % 32), Opnd::Alias(sp.to_string())])),
                (0, 0) => Ln::st(St::Ins("rjmp".into(), vec![Opnd::Ex(sym)])),
                (1, 0) => Ln::st(St::Ins("lds".into(), vec![Opnd::Reg(action % 32), Opnd::Ex(sym)])),
                (1, 2) => Ln::st(St::Ins("sts".into(), vec![Opnd::Ex(sym), Opnd::Reg(action % 32)])),
                // a use whose value does not depend on the symbol is a use all the same: an undefined
                // name there must fail the build
                (0..=4, 2) if action & 16 != 0 => Ln::st(St::Data(DKind::Dw, vec![DItem::Ex(E::bin(BinOp::LAnd, E::Num(0), sym)), DItem::Ex(E::bin(BinOp::LOr, E::Num(5), E::sym(sp)))])),
                (0..=4, 3) if action & 16 != 0 => Ln::st(St::Ins("ldi".into(), vec![Opnd::Reg(16 + action % 16), Opnd::Ex(E::bin(BinOp::Mul, E::Fn(Func::Low, Box::new(sym)), E::Num(0)))])),
                (_, 1) => Ln::st(St::Ins("ldi".into(), vec![Opnd::Reg(16 + action % 16), Opnd::Ex(E::Fn(Func::Low, Box::new(sym)))])),
                (_, 3) => Ln::st(St::Data(DKind::Dd, vec![DItem::Ex(E::bin(BinOp::Add, sym, E::Num(1)))])),
                _ => Ln::st(St::Data(DKind::Dw, vec![DItem::Ex(E::Fn(Func::Lwrd, Box::new(sym)))])),
            };
            let l2 = match &l.st {
                Some(St::Ins(m, ops)) => Ln::st(St::Ins(m.clone(), ops.iter().map(|o| if let Opnd::Alias(_) = o { Opnd::Reg(reg) } else { o.clone() }).collect())),
                _ => l.clone(),
            };
            (l, l2)
        };
        match (kind, state[i].clone()) {
            // labels and equs: define once at some point, may be used before (forward reference)
            (0..=3, State::Fresh) => {
                if st.action % 3 == 0 {
                    def_line[i] = Some(define(i, &mut prog, &mut na, &sp, &mut reg_of, &mut next_reg, &set_assigns));
                    state[i] = State::Defined;
                } else {
                    let (a, b) = use_line(kind, st.action / 3, &sp, 0);
                    prog.push(a);
                    na.push(b);
                    used[i] = true;
                    used_before_def[i] = true;
                    shape.forward_ref = true;
                }
            }
            (0..=3, _) => {
                let (a, b) = use_line(kind, st.action / 3, &sp, 0);
                prog.push(a);
                na.push(b);
                used[i] = true;
            }
            (4, State::Fresh) => {
                let wrap = seg_wrap(st.bits);
                open_wrap(wrap, &mut prog, &mut na, &mut shape);
                let at = define(i, &mut prog, &mut na, &sp, &mut reg_of, &mut next_reg, &set_assigns);
                def_line[i] = Some(at);
                close_wrap(wrap, &mut prog, &mut na);
                set_assigns[i] += 1;
                state[i] = State::Defined;
            }
            (4, _) => {
                if st.action % 3 == 0 && set_assigns[i] < 3 {
                    if set_uses_since_assign[i] > 0 {
                        shape.set_reassigned_between_uses = true;
                    }
                    let wrap = seg_wrap(st.bits);
                    open_wrap(wrap, &mut prog, &mut na, &mut shape);
                    define(i, &mut prog, &mut na, &sp, &mut reg_of, &mut next_reg, &set_assigns);
                    close_wrap(wrap, &mut prog, &mut na);
                    set_assigns[i] += 1;
                    set_uses_since_assign[i] = 0;
                } else {
                    let (a, b) = use_line(kind, st.action / 3, &sp, 0);
                    prog.push(a);
                    na.push(b);
                    used[i] = true;
                    set_uses_since_assign[i] += 1;
                }
            }
            (_, State::Fresh) | (_, State::Undefined) => {
                if state[i] == State::Undefined {
                    shape.redef_after_undef = true;
                }
                let wrap = seg_wrap(st.bits);
                open_wrap(wrap, &mut prog, &mut na, &mut shape);
                let at = define(i, &mut prog, &mut na, &sp, &mut reg_of, &mut next_reg, &set_assigns);
                close_wrap(wrap, &mut prog, &mut na);
                if def_line[i].is_none() {
                    def_line[i] = Some(at);
                }
                state[i] = State::Defined;
            }
            (_, State::Defined) => {
                if st.action % 4 == 0 {
                    let wrap = seg_wrap(st.bits);
                    open_wrap(wrap, &mut prog, &mut na, &mut shape);
                    push(&mut prog, &mut na, Ln::st(St::Undef(sp.clone())));
                    close_wrap(wrap, &mut prog, &mut na);
                    state[i] = State::Undefined;
                } else {
                    let (a, b) = use_line(kind, st.action / 4, &sp, reg_of[i]);
                    prog.push(a);
                    na.push(b);
                    used[i] = true;
                    shape.alias_used = true;
                }
            }
        }
    }
    // labels / equs that were only used so far get their definition at the end
    for i in 0..n {
        if r.syms[i].kind <= 3 && state[i] == State::Fresh && used[i] {
            let nm = name(i);
            def_line[i] = Some(define(i, &mut prog, &mut na, &nm, &mut reg_of, &mut next_reg, &set_assigns));
            state[i] = State::Defined;
        }
    }
    // rjmp needs its target in range: programs are far below 2048 words, fine.
    let mut expect_fail = false;
    let pick = |sel: u16, pred: &dyn Fn(usize) -> bool| -> Option<usize> {
        let c: Vec<usize> = (0..n).filter(|i| pred(*i)).collect();
        if c.is_empty() {
            None
        } else {
            Some(c[gen::idx(sel, c.len())])
        }
    };
    match &r.variant {
        Variant::Valid => {}
        Variant::DeleteDefinition(sel) => {
            // a symbol defined exactly once that has a use
            if let Some(i) = pick(*sel, &|i| used[i] && def_line[i].is_some() && (r.syms[i].kind <= 3 || (r.syms[i].kind == 4 && set_assigns[i] == 1))) {
                let at = def_line[i].unwrap();
                // keep the item, drop the definition: label removed from its line / equ or set line blanked
                for p in [&mut prog, &mut na] {
                    match r.syms[i].kind {
                        0..=2 => p[at].label = None,
                        _ => p[at] = Ln::blank(),
                    }
                }
                expect_fail = true;
                shape.variant = "deleted-definition";
            }
        }
        Variant::DuplicateLabel(sel) => {
            if let Some(i) = pick(*sel, &|i| r.syms[i].kind <= 2 && state[i] == State::Defined) {
                let sp = recase(&name(i), (*sel % 3) as u8, 0x5555_5555);
                // the second definition sits in the code, data or EEPROM segment, whatever the first one did;
                // or it is a bare label line directly in front of the first one: same segment, same address
                if (*sel / 9) % 3 == 1 && def_line[i].map_or(false, |at| at <= prog.len() && prog.len() == na.len()) {
                    let at = def_line[i].unwrap();
                    prog.insert(at, Ln::label(&sp));
                    na.insert(at, Ln::label(&sp));
                    shape.same_address_duplicate = true;
                } else {
                match (*sel / 3) % 3 {
                    0 => push(&mut prog, &mut na, Ln::with_label(&sp, St::Ins("nop".into(), vec![]))),
                    1 => {
                        push(&mut prog, &mut na, Ln::st(St::Seg(Seg::Data)));
                        push(&mut prog, &mut na, Ln::with_label(&sp, St::Byte(E::Num(1))));
                        push(&mut prog, &mut na, Ln::st(St::Seg(Seg::Code)));
                    }
                    _ => {
                        push(&mut prog, &mut na, Ln::st(St::Seg(Seg::Eeprom)));
                        push(&mut prog, &mut na, Ln::with_label(&sp, St::Data(DKind::Db, vec![DItem::Ex(E::Num(1))])));
                        push(&mut prog, &mut na, Ln::st(St::Seg(Seg::Code)));
                    }
                }
                }
                expect_fail = true;
                shape.variant = "duplicate-label";
            }
        }
        Variant::AliasOutsideScope(sel) => {
            if let Some(i) = pick(*sel, &|i| r.syms[i].kind == 5 && state[i] != State::Defined) {
                // never defined, or .undef'ed at the end: a use after all that must fail
                let sp = recase(&name(i), (*sel % 4) as u8, 0x3333_3333);
                let l = Ln::st(St::Ins("mov".into(), vec![Opnd::Alias(sp), Opnd::Reg(1)]));
                prog.push(l.clone());
                na.push(l);
                expect_fail = true;
                shape.variant = "alias-after-undef-or-never-defined";
            } else if let Some(i) = pick(*sel, &|i| r.syms[i].kind == 5 && def_line[i].is_some()) {
                // a use before the first .def
                let l = Ln::st(St::Ins("mov".into(), vec![Opnd::Alias(name(i)), Opnd::Reg(1)]));
                prog.insert(0, l.clone());
                na.insert(0, l);
                expect_fail = true;
                shape.variant = "alias-before-def";
            }
        }
        Variant::SetBeforeAssignment(sel) => {
            if let Some(i) = pick(*sel, &|i| r.syms[i].kind == 4 && def_line[i].is_some()) {
                let l = Ln::st(St::Data(DKind::Dw, vec![DItem::Ex(E::sym(&name(i)))]));
                prog.insert(0, l.clone());
                na.insert(0, l);
                expect_fail = true;
                shape.variant = "set-used-before-first-assignment";
            }
        }
    }
    Built { prog, no_alias: na, shape, expect_fail }
}

pub fn test(r: &RawSyms, ev: &mut Ev, opts: &ModelOpts) -> Result<(), Violation> {
    ev.eval();
    let b = build(r);
    let text = render(&b.prog, r.style).text;
    let (exp, _) = model::assemble(&b.prog, opts);
    for (c, on) in [
        ("definition-and-use-differ-in-case", b.shape.case_differs),
        ("forward-reference", b.shape.forward_ref),
        ("set-reassigned-between-uses", b.shape.set_reassigned_between_uses),
        ("alias-used", b.shape.alias_used),
        ("alias-redefined-after-undef", b.shape.redef_after_undef),
        ("set-def-undef-while-dseg-or-eseg-is-current", b.shape.directive_in_other_segment),
        ("duplicate-label-at-the-same-address", b.shape.same_address_duplicate),
    ] {
        if on {
            ev.class(c);
        }
    }
    if b.shape.case_differs || b.shape.forward_ref || b.shape.set_reassigned_between_uses || b.expect_fail {
        ev.nt(fp(&text));
    }
    match (&exp, b.expect_fail) {
        (Expect::Ok(img), false) => {
            ev.class("valid");
            if ev.samples.len() < 2 {
                ev.samples.push(json!({"program": text, "expected_code": crate::run::hex(&img.code, 48)}));
            }
            let chk = Check::Image { src: text.clone(), code: Some(img.code.clone()), eeprom: Some(img.eeprom.clone()), ram_filling: Some(img.ram_filling), sizes: None, messages: None };
            chk.eval().map_err(|why| {
                let kind = if why.contains("anic") { "panic" } else if why.contains("Err(") { "rejected" } else { "wrong-value" };
                Violation { sig: format!("c10:valid:{}", kind), what: why, replay: chk.to_json() }
            })?;
            if b.shape.alias_used {
                let t2 = render(&b.no_alias, r.style).text;
                let chk = Check::Same { a: text, b: t2, messages: false, allow_both_fail: false };
                chk.eval().map_err(|why| Violation { sig: "c10:alias-vs-register".into(), what: why, replay: chk.to_json() })?;
            }
            Ok(())
        }
        (Expect::Fail { .. }, true) => {
            ev.class(&format!("must-fail:{}", b.shape.variant));
            let chk = Check::MustFail { src: text.clone(), token: None };
            chk.eval().map_err(|why| {
                let kind = if why.contains("anic") { "panic" } else { "accepted" };
                Violation { sig: format!("c10:{}:{}", b.shape.variant, kind), what: why, replay: chk.to_json() }
            })
        }
        (Expect::Unsure(_), _) => {
            ev.discarded += 1;
            Ok(())
        }
        (e, f) => {
            ev.discarded += 1;
            let why = match e {
                Expect::Ok(_) => "model-accepts".to_string(),
                Expect::Fail { reason, .. } => reason.split(' ').take(2).collect::<Vec<_>>().join("-"),
                Expect::Unsure(_) => "unsure".to_string(),
            };
            ev.class(&format!("harness-inconsistent:intended_fail={}:{}", f, why));
            Ok(())
        }
    }
}

/// Programs with hundreds to thousands of symbols of every kind (counts on both sides of 2^8 and 2^12,
/// names up to 150 characters, definitions after the use for half of the .equ names and labels, every
/// use in another letter case than the definition); values are known by construction.
pub fn scale_program(n: usize) -> (String, Vec<u8>) {
    let mut src = String::new();
    let mut code: Vec<u8> = vec![];
    let mut w = |code: &mut Vec<u8>, v: u16| code.extend_from_slice(&v.to_le_bytes());
    let long = |i: usize| if i % 50 == 7 { "_long".repeat(1 + i % 29) } else { String::new() };
    let mut pos = 0u32; // word address
    for i in 0..n {
        let e = format!("Equ{}_{}x", long(i), i);
        let l = format!("lab{}_{}x", long(i), i);
        let sname = format!("Var_{}x", i);
        let a = format!("Al_{}x", i);
        let ev = (3 * i as u32 + 1) % 65536;
        if i % 2 == 1 {
            src.push_str(&format!(".equ {} = {}\n", e, ev));
        }
        // uses in other letter cases; labels are referenced before they are defined
        let lab_addr = pos + 2 + 2 + 1;
        src.push_str(&format!(".dw {}, {}\n", e.to_uppercase(), l.to_uppercase()));
        w(&mut code, ev as u16);
        w(&mut code, (lab_addr % 65536) as u16);
        pos += 2;
        src.push_str(&format!(".set {} = {}\n.dw {}\n.set {} = {} + 1\n.dw {}\n", sname, i % 65000, sname.to_lowercase(), sname.to_uppercase(), sname, sname.to_uppercase()));
        w(&mut code, (i % 65000) as u16);
        w(&mut code, (i % 65000) as u16 + 1);
        pos += 2;
        let r = 16 + (i % 16) as u16;
        src.push_str(&format!(".def {} = r{}\nldi {}, {}\n.undef {}\n", a, r, a.to_uppercase(), i % 256, a.to_lowercase()));
        w(&mut code, 0xe000 | ((i as u16 % 256 & 0xf0) << 4) | ((r - 16) << 4) | (i as u16 % 256 & 0x0f));
        pos += 1;
        src.push_str(&format!("{}: nop\n", l));
        w(&mut code, 0);
        pos += 1;
        if i % 2 == 0 {
            src.push_str(&format!(".equ {} = {}\n", e.to_lowercase(), ev));
        }
    }
    (src, code)
}

fn scale_leg(total: &mut Ev, thorough: bool) {
    use rayon::prelude::*;
    let mut sizes = vec![40usize, 255, 256, 257, 1000, 4100];
    if thorough {
        sizes.extend([8200usize, 10900]); // six words per symbol: label values must stay below 2^16 to fit a .dw
    }
    let results: Vec<(usize, String, Result<(), String>, serde_json::Value)> = sizes
        .into_par_iter()
        .map(|n| {
            let (src, code) = scale_program(n);
            let chk = Check::Image { src: src.clone(), code: Some(code), eeprom: Some(vec![]), ram_filling: None, sizes: None, messages: None };
            let r = chk.eval();
            (n, src, r, chk.to_json())
        })
        .collect();
    for (n, src, r, replay) in results {
        total.eval();
        total.class("hundreds-to-thousands-of-symbols-of-every-kind");
        total.nt(fp(&src));
        if let Err(why) = r {
            let k = if why.contains("differs") { "wrong-value" } else if why.contains("anic") { "panic" } else { "rejected" };
            total.violation(Violation { sig: format!("c10:scale:{}", k), what: format!("[{} symbols of each kind] {}", n, crate::run::truncate(&why, 300)), replay });
        }
    }
}

pub fn run(ctx: &Ctx) -> Result<Ev, String> {
    let opts = ModelOpts { devices: vec![] };
    let shards = 32usize;
    let per = (if ctx.thorough { 1_500_000 } else { 120_000 } / shards) as u32;
    let seed = ctx.seed;
    let mut total = par::run_shards("C10", shards, |s| par::prop_shard("C10", seed, s, per, &raw_syms(), |c, ev| test(c, ev, &opts)));
    scale_leg(&mut total, ctx.thorough);
    // one name with two definitions of value-carrying kinds (label, .equ, .set): there is no unique
    // definition a reference could resolve to, so the build fails — a reference never silently takes
    // the value of the other one.  Both orders, the second spelling in another letter case.
    {
        let defs: [(&str, &str); 5] = [("label", "{}: nop"), ("data-label", ".dseg\n{}: .byte 1\n.cseg"), ("eeprom-label", ".eseg\n{}: .db 1\n.cseg"), ("equ", ".equ {} = 5"), ("set", ".set {} = 7")];
        for (ka, ta) in defs.iter() {
            for (kb, tb) in defs.iter() {
                if *ka == "set" && *kb == "set" {
                    continue; // re-assignment is what .set is for
                }
                for use_at in ["end", "between", "front"] {
                    let a = ta.replace("{}", "clash_sym");
                    let b = tb.replace("{}", "Clash_SYM");
                    let u = ".dw clash_sym + 0";
                    let src = match use_at {
                        "end" => format!("nop\n{}\nnop\n{}\n{}\n", a, b, u),
                        "between" => format!("nop\n{}\n{}\n{}\n", a, u, b),
                        _ => format!("{}\nnop\n{}\nnop\n{}\n", if *ka == "set" || *kb == "set" { "nop" } else { u }, a, b),
                    };
                    total.eval();
                    total.class("must-fail:one-name-two-definitions");
                    total.nt(fp(&src));
                    let chk = Check::MustFail { src: src.clone(), token: None };
                    if let Err(why) = chk.eval() {
                        let mut k = [*ka, *kb];
                        k.sort();
                        total.violation(Violation { sig: format!("c10:one-name-two-definitions:{}+{}:accepted", k[0], k[1]), what: format!("`{}`: {}", src.replace('\n', " | "), why), replay: chk.to_json() });
                    }
                }
            }
        }
    }
    let inconsistent: u64 = total.classes.iter().filter(|(k, _)| k.starts_with("harness-inconsistent")).map(|(_, v)| *v).sum();
    if inconsistent * 50 > total.evaluations {
        let k = total.classes.keys().find(|k| k.starts_with("harness-inconsistent")).cloned().unwrap_or_default();
        return Err(format!("C10 builder and model disagree in {} of {} cases, e.g. {}", inconsistent, total.evaluations, k));
    }
    for required in ["definition-and-use-differ-in-case", "forward-reference", "set-reassigned-between-uses", "alias-used", "alias-redefined-after-undef", "set-def-undef-while-dseg-or-eseg-is-current", "must-fail:deleted-definition", "must-fail:duplicate-label", "must-fail:alias-after-undef-or-never-defined", "must-fail:set-used-before-first-assignment"] {
        if !total.has_violation() && total.classes.get(required).copied().unwrap_or(0) == 0 {
            return Err(format!("generator degenerate: class {} never produced", required));
        }
    }
    Ok(total)
}

pub fn rule() -> String {
    "proptest: 2–9 symbols over code/data/EEPROM labels, .equ, .set (1–3 sequential assignments, some referring to the previous value) and .def aliases (.def / .undef / re-.def), 4–27 steps that define, use (rjmp, lds/sts, ldi low(), mov/ldi/add through an alias, .dw/.dd) or re-assign them in a generated order, every occurrence of a name in an independently generated letter case; variants with exactly one fault: definition deleted while a use remains, duplicated label (other case), alias used after .undef / never defined / before .def, .set name used before its first assignment; a deterministic leg gives one name two definitions of value-carrying kinds (label in any segment, .equ, .set; both orders, other letter case): must fail. Oracles: reference model image; must-fail for variants; metamorphic alias→register replacement. Non-trivial = definition and use differ in case, or a forward reference, or a .set reassignment between two uses, or a must-fail variant; distinct = distinct program text".into()
}
