//! C16 — no input makes the assembler panic, overflow its stack, or hang.
//!
//! Every case runs in an isolated worker process (8 MiB main stack, 1 GiB address space,
//! watchdog).  Legs: (a) bounded-exhaustive dictionary of single-line programs, (b) byte / token /
//! line mutations of generated valid programs and of the repository's fixtures, (c) structural
//! stress inputs (deep nesting, recursion, absurd numbers).

use super::c14;
use crate::evidence::{fp, Ev, Violation};
use crate::isa;
use crate::model;
use crate::par;
use crate::pool::{Slot, WOutcome};
use crate::render::render;
use crate::run::verif_root;
use crate::Ctx;
use proptest::prelude::RngCore;
use rayon::prelude::*;
use serde_json::{json, Value};
use std::sync::atomic::{AtomicUsize, Ordering};
use std::sync::Mutex;

pub const DIRECTIVES: &[&str] = &[
    "byte", "cseg", "csegsize", "db", "def", "device", "dseg", "dw", "endm", "endmacro", "equ", "eseg", "exit", "include", "includepath", "list", "listmac", "macro", "nolist", "org", "set", "define", "else", "elif", "endif", "error", "if", "ifdef",
    "ifndef", "message", "dd", "dq", "undef", "warning", "overlap", "nooverlap", "pragma",
];

pub const OPERANDS: &[&str] = &[
    // valid
    "r16", "r0", "X+", "Y+3", "5", "lab", "\"str\"", "a=5", // boundary
    "-1", "256", "65536", "0x7fffffff", "0xffffffff", "4294967296", "9223372036854775807", // hostile
    "99999999999999999999", "r32", "r99", "1<<64", "1/0", "a=b", "(", "\"\"", "@0", "$", "0x", "'", "x+", "-",
];

pub const CONTEXTS: &[&str] = &["alone", "after-dseg", "after-eseg", "in-macro-body", "after-device-ATtiny10"];

pub fn heads() -> Vec<String> {
    let mut v: Vec<String> = DIRECTIVES.iter().map(|d| format!(".{}", d)).collect();
    v.extend(isa::all_mnemonics());
    v.push("frobnicate".into());
    v
}

fn operand_list(mut i: usize) -> Vec<&'static str> {
    let d = OPERANDS.len();
    if i == 0 {
        return vec![];
    }
    i -= 1;
    if i < d {
        return vec![OPERANDS[i]];
    }
    i -= d;
    if i < d * d {
        return vec![OPERANDS[i / d], OPERANDS[i % d]];
    }
    i -= d * d;
    vec![OPERANDS[i / (d * d)], OPERANDS[(i / d) % d], OPERANDS[i % d]]
}

pub fn dict_case(head: &str, ops: usize, ctx: usize) -> String {
    let o = operand_list(ops);
    let line = if o.is_empty() { head.to_string() } else { format!("{} {}", head, o.join(", ")) };
    match ctx {
        1 => format!(".dseg\n{}", line),
        2 => format!(".eseg\n{}", line),
        3 => format!(".macro mm\n{}\n.endm\nmm", line),
        4 => format!(".device ATtiny10\n{}", line),
        _ => line,
    }
}

fn strip_digits(s: &str) -> String {
    let t: String = s.chars().map(|c| if c.is_ascii_digit() { '#' } else { c }).collect();
    let t = t.split(" @ ").next().unwrap_or("").to_string();
    crate::run::truncate(&t, 60)
}

pub fn outcome_sig(o: &WOutcome) -> String {
    match o {
        WOutcome::Panic(m) => format!("panic:{}", strip_digits(m)),
        WOutcome::Died(n) => format!("died:{}", n.split(" (").next().unwrap_or("").replace(' ', "-")),
        WOutcome::Timeout => "timeout".into(),
        _ => "clean".into(),
    }
}

pub struct Leg {
    pub name: &'static str,
    pub len: usize,
    pub get: Box<dyn Fn(usize) -> (String, String) + Sync + Send>, // (source, signature head)
}

const BATCH: usize = 400;

fn run_leg(leg: &Leg, total: &Mutex<Ev>, infra_error: &Mutex<Option<String>>) {
    let nb = (leg.len + BATCH - 1) / BATCH;
    let next = AtomicUsize::new(0);
    let nworkers = 16usize;
    std::thread::scope(|sc| {
        for w in 0..nworkers {
            let next = &next;
            sc.spawn(move || {
                let mut slot = Slot::new(&format!("{}-{}", leg.name, w), false);
                let mut ev = Ev::new("C16");
                loop {
                    let b = next.fetch_add(1, Ordering::SeqCst);
                    if b >= nb || infra_error.lock().unwrap().is_some() {
                        break;
                    }
                    let lo = b * BATCH;
                    let hi = (lo + BATCH).min(leg.len);
                    let cases: Vec<(String, String)> = (lo..hi).map(|i| (leg.get)(i)).collect();
                    let srcs: Vec<String> = cases.iter().map(|c| c.0.clone()).collect();
                    match slot.run(&srcs) {
                        Ok(outs) => {
                            for ((src, head), o) in cases.iter().zip(outs.iter()) {
                                ev.eval();
                                ev.class(&format!("{}:{}", leg.name, o.kind()));
                                if !matches!(o, WOutcome::Ok(_)) {
                                    ev.nt(fp(src));
                                }
                                if !o.is_clean() {
                                    ev.violation(Violation {
                                        sig: format!("c16:{}:{}:{}", leg.name, head, outcome_sig(o)),
                                        what: format!("{:?} -> {:?}", crate::run::truncate(src, 200), o),
                                        replay: json!({"kind": "isolated_no_crash", "src": src}),
                                    });
                                }
                            }
                            if b % 997 == 0 {
                                let mid = cases.len() / 2;
                                ev.samples.push(json!({"leg": leg.name, "source": crate::run::truncate(&cases[mid].0, 300), "outcome": outs[mid].kind()}));
                            }
                        }
                        Err(e) => {
                            *infra_error.lock().unwrap() = Some(e);
                            break;
                        }
                    }
                }
                ev.extra.insert("worker_restarts".into(), json!(slot.restarts.saturating_sub(1)));
                total.lock().unwrap().merge(ev);
            });
        }
    });
}

fn fixtures() -> Vec<String> {
    let mut v = vec![];
    let dir = verif_root().join("target/repo-snapshot/tests");
    if let Ok(rd) = std::fs::read_dir(dir) {
        let mut names: Vec<_> = rd.filter_map(|e| e.ok()).map(|e| e.path()).filter(|p| p.is_file()).collect();
        names.sort();
        for p in names {
            if let Ok(t) = std::fs::read_to_string(&p) {
                v.push(t);
            }
        }
    }
    v
}

const SPLICE: &[&str] = &[
    "99999999999999999999", "0x7fffffff", "4294967295", "-9223372036854775808", "r32", "1<<64", "1/0", "(", ")", "\"", "'", "@0", "@9", "$", ",", ",,", "=", ":", ";", "/*", "*/", "//", ".if", ".endif", ".else", ".elif 1", ".macro", ".endm", ".macro q", ".exit", "\u{0}", "\u{7f}", "\u{feff}", "é", "\t", "\r", "((((((((", "--------", "~~~~~~~~!", ".org 0xffffffff", ".byte 4294967295", ".equ q = q", ".include \"nowhere\"", "%", "<<", ">>", "&&", "||",
];

fn mutate(base: &str, rng: &mut dyn RngCore) -> String {
    let mut lines: Vec<String> = base.lines().map(|l| l.to_string()).collect();
    if lines.is_empty() {
        lines.push(String::new());
    }
    let nm = 1 + rng.next_u32() % 3;
    for _ in 0..nm {
        let n = lines.len();
        let i = (rng.next_u32() as usize) % n;
        match rng.next_u32() % 12 {
            0 => {
                lines.remove(i);
                if lines.is_empty() {
                    lines.push(String::new());
                }
            }
            1 => {
                let l = lines[i].clone();
                lines.insert(i, l);
            }
            2 => {
                let j = (rng.next_u32() as usize) % n;
                lines.swap(i, j);
            }
            3 | 4 => {
                // splice a hostile token at a token boundary
                let tok = SPLICE[(rng.next_u32() as usize) % SPLICE.len()];
                let l = &lines[i];
                let bounds: Vec<usize> = l.char_indices().filter(|(_, c)| *c == ' ' || *c == ',' || *c == '\t').map(|(p, _)| p).chain([0, l.len()]).collect();
                let at = bounds[(rng.next_u32() as usize) % bounds.len()];
                let mut s = l.clone();
                s.insert_str(at, tok);
                lines[i] = s;
            }
            5 => {
                // replace a token
                let tok = SPLICE[(rng.next_u32() as usize) % SPLICE.len()];
                let parts: Vec<&str> = lines[i].split(' ').collect();
                if !parts.is_empty() {
                    let k = (rng.next_u32() as usize) % parts.len();
                    let mut p2: Vec<String> = parts.iter().map(|x| x.to_string()).collect();
                    p2[k] = tok.to_string();
                    lines[i] = p2.join(" ");
                }
            }
            6 => {
                // truncate mid-token
                let l = &lines[i];
                if !l.is_empty() {
                    let mut cut = (rng.next_u32() as usize) % l.len();
                    while !l.is_char_boundary(cut) {
                        cut -= 1;
                    }
                    lines[i] = l[..cut].to_string();
                }
            }
            7 => {
                // unbalance conditionals / macros
                let ins = [".endif", ".else", ".elif 1", ".endm", ".if 1", ".if 0", ".macro zz", ".ifdef zz", ".endmacro"][(rng.next_u32() % 9) as usize];
                lines.insert(i, ins.to_string());
            }
            8 => {
                // raw bytes (made valid UTF-8 lossily)
                let mut bytes = lines[i].clone().into_bytes();
                let k = 1 + rng.next_u32() % 4;
                for _ in 0..k {
                    let at = if bytes.is_empty() { 0 } else { (rng.next_u32() as usize) % (bytes.len() + 1) };
                    bytes.insert(at, (rng.next_u32() & 0xff) as u8);
                }
                lines[i] = String::from_utf8_lossy(&bytes).to_string();
            }
            9 => {
                // delete a directive that closes something
                if let Some(p) = lines.iter().position(|l| l.trim_start().starts_with(".endif") || l.trim_start().starts_with(".endm")) {
                    lines.remove(p);
                    if lines.is_empty() {
                        lines.push(String::new());
                    }
                }
            }
            10 => {
                // repeat a character many times (bounded nesting, DESIGN §5 C16)
                let c = ["(", "-", "~", "!", ")", "low(", "\"", ","][(rng.next_u32() % 8) as usize];
                let k = 2 + (rng.next_u32() % 60) as usize;
                let l = &lines[i];
                let mut at = if l.is_empty() { 0 } else { (rng.next_u32() as usize) % (l.len() + 1) };
                while !l.is_char_boundary(at) {
                    at -= 1;
                }
                let mut s = l.clone();
                s.insert_str(at, &c.repeat(k));
                lines[i] = s;
            }
            _ => {
                // join two lines / split a line
                if i + 1 < lines.len() {
                    let nxt = lines.remove(i + 1);
                    lines[i].push(' ');
                    lines[i].push_str(&nxt);
                }
            }
        }
    }
    let mut out = lines.join("\n");
    if out.len() > 65536 {
        let mut cut = 65536;
        while !out.is_char_boundary(cut) {
            cut -= 1;
        }
        out.truncate(cut);
    }
    out
}

/// Stress inputs that are listed as open findings and take tens of seconds (watchdog): thorough tier only.
pub const SLOW_KNOWN: &[&str] = &[];

pub fn stress_inputs() -> Vec<(String, String)> {
    let mut v: Vec<(String, String)> = vec![];
    let mut add = |tag: &str, s: String| v.push((s, tag.to_string()));
    for n in [64usize, 500, 2000, 5000, 20000, 30000] {
        add(&format!("nested-parentheses-{}", n), format!(".dw {}1{}", "(".repeat(n), ")".repeat(n)));
        add(&format!("unary-minus-chain-{}", n), format!(".dw {}1", "-".repeat(n)));
        add(&format!("unary-not-chain-{}", n), format!(".dw {}1", "!~".repeat(n / 2)));
        add(&format!("nested-function-{}", n), format!(".dw {}1{}", "low(".repeat(n.min(12000)), ")".repeat(n.min(12000))));
        add(&format!("unclosed-parentheses-{}", n), format!("ldi r16, {}", "(".repeat(n)));
    }
    // the same deep lines where the assembler only skims the text: untaken branches, the part
    // after .else of a taken branch, macro bodies (called or not), after .exit
    for n in [300usize, 4000, 30000] {
        for (what, line) in [("parentheses", format!(".dw {}1{}", "(".repeat(n), ")".repeat(n))), ("unary-chain", format!("ldi r16, {}1", "-~!".repeat(n / 3))), ("unclosed", format!(".db {}", "(".repeat(n)))] {
            add(&format!("deep-{}-{}-in-untaken-if", what, n), format!(".if 0\n{}\n.endif\nnop", line));
            add(&format!("deep-{}-{}-after-else-of-taken-if", what, n), format!(".if 1\nnop\n.else\n{}\n.endif", line));
            add(&format!("deep-{}-{}-in-untaken-elif", what, n), format!(".if 1\nnop\n.elif 1\n{}\n.endif", line));
            add(&format!("deep-{}-{}-in-nested-untaken", what, n), format!(".if 0\n.ifdef q\n{}\n.endif\n.else\nnop\n.endif", line));
            add(&format!("deep-{}-{}-in-uncalled-macro", what, n), format!(".macro mm\n{}\n.endm\nnop", line));
            add(&format!("deep-{}-{}-in-called-macro", what, n), format!(".macro mm\n{}\n.endm\nmm", line));
            add(&format!("deep-{}-{}-after-exit", what, n), format!("nop\n.exit\n{}", line));
            add(&format!("deep-{}-{}-as-macro-argument", what, n), format!(".macro mm\n.dw @0\n.endm\nmm {}1{}", "(".repeat(n), ")".repeat(n)));
        }
    }
    // deep nesting behind a literal: a guard that scans the line for quotes, comment characters and escapes
    // must see the line the way the grammar does (which knows no escapes; a quote of the other kind, a
    // backslash, a comment character inside a literal are plain characters)
    for n in [1000usize, 30000] {
        for (lt, lit) in [("string-ending-in-backslash", "\"\\\""), ("char-backslash", "'\\'"), ("string-with-apostrophe", "\"it's\""), ("char-double-quote", "'\"'"), ("string-with-semicolon", "\"a;b\""), ("string-with-slashes", "\"//\""), ("string-with-comment-opener", "\"/*\""), ("char-semicolon", "';'"), ("string-with-two-apostrophes", "\"'a'\""), ("empty-string", "\"\"")] {
            add(&format!("deep-parentheses-{}-behind-{}", n, lt), format!(".db {}, {}1{}", lit, "(".repeat(n), ")".repeat(n)));
            add(&format!("deep-unary-chain-{}-behind-{}", n, lt), format!(".db {}, {}1", lit, "-~".repeat(n / 2)));
            add(&format!("deep-parentheses-{}-between-{}", n, lt), format!(".db {}, {}1{}, {}", lit, "(".repeat(n), ")".repeat(n), lit));
        }
        add(&format!("deep-parentheses-{}-added-to-char-backslash", n), format!("ldi r16, '\\' + {}1{}", "(".repeat(n), ")".repeat(n)));
        add(&format!("deep-parentheses-{}-behind-message-string", n), format!(".message \"don't\"\n.dw {}1{}", "(".repeat(n), ")".repeat(n)));
    }
    for n in [10usize, 1000, 10000] {
        add(&format!("nested-if-{}", n), format!("{}nop\n{}", ".if 1\n".repeat(n), ".endif\n".repeat(n)));
        add(&format!("nested-if-unclosed-{}", n), ".if 0\n".repeat(n));
        add(&format!("long-sum-{}", n), format!(".dw 1{}", "+1".repeat(n)));
        add(&format!("many-labels-{}", n), (0..n).map(|i| format!("l{}: nop\n", i)).collect::<String>());
        add(&format!("many-operands-{}", n), format!(".db {}", vec!["1"; n].join(",")));
    }
    // chains of binary operators: the expression tree is as deep as the chain is long
    for n in [300usize, 3000, 100_000, 1_000_000] {
        for (tag, op) in [("sum", "+1"), ("product", "*1"), ("or", "|1"), ("logical-and", "&&1"), ("shift", "<<0"), ("compare", "==1"), ("mixed", "+1*1-1")] {
            if n >= 100_000 && tag != "sum" && tag != "mixed" {
                continue;
            }
            add(&format!("operator-chain-{}-{}", tag, n), format!(".dw 1{}", op.repeat(n / (op.len() / 2))));
        }
        add(&format!("operator-chain-in-instruction-{}", n), format!("ldi r16, 0{}", "+0".repeat(n)));
        add(&format!("operator-chain-in-if-{}", n), format!(".if 0{}
nop
.endif", "+0".repeat(n)));
        add(&format!("operator-chain-in-equ-{}", n), format!(".equ oc = 0{}
.dw oc", "+0".repeat(n)));
        add(&format!("operator-chain-in-untaken-if-{}", n), format!(".if 0
.dw 0{}
.endif", "+0".repeat(n)));
        add(&format!("operator-chain-as-macro-argument-{}", n), format!(".macro mm
.dw @0
.endm
mm 0{}", "+0".repeat(n)));
        add(&format!("operator-chain-many-operands-{}", n), format!(".db {}", vec!["1+1"; n.min(100_000)].join(",")));
    }
    // evaluation depth = symbol nesting × operator chain (symbol first: it is the deepest leaf of the left-deep tree)
    for (syms, ops) in [(8usize, 100usize), (30, 250), (99, 250), (30, 120)] {
        let mut sdef = String::new();
        for i in 0..syms {
            sdef.push_str(&format!(".equ dc{} = dc{}{}\n", i, i + 1, "+1".repeat(ops)));
        }
        sdef.push_str(&format!(".equ dc{} = 1\n.dw low(dc0)", syms));
        add(&format!("equ-chain-{}-symbols-x-{}-binary-operators", syms, ops), sdef);
    }
    // nesting hidden behind a comment character that is inside a string or character literal
    for n in [3000usize, 30000] {
        add(&format!("deep-parentheses-{}-after-semicolon-in-string", n), format!(".db \";\", {}1{}", "(".repeat(n), ")".repeat(n)));
        add(&format!("deep-parentheses-{}-after-slashes-in-string", n), format!(".db \"//\", {}1{}", "(".repeat(n), ")".repeat(n)));
        add(&format!("deep-parentheses-{}-after-semicolon-char", n), format!(".db ';', {}1{}", "(".repeat(n), ")".repeat(n)));
        add(&format!("deep-unary-{}-after-semicolon-in-message", n), format!(".message \"a;b\"\n.db \"x;\", {}1", "-".repeat(n)));
    }
    // evaluation depth = symbol nesting × expression nesting
    for (syms, ops) in [(10usize, 200usize), (60, 200), (99, 250), (99, 120)] {
        let mut sdef = String::new();
        for i in 0..syms {
            sdef.push_str(&format!(".equ dq{} = {}dq{}\n", i, "-~".repeat(ops / 2), i + 1));
        }
        sdef.push_str(&format!(".equ dq{} = 1\n.dw low(dq0)", syms));
        add(&format!("equ-chain-{}-symbols-x-{}-unary-operators", syms, ops), sdef);
        let mut pdef = String::new();
        for i in 0..syms {
            pdef.push_str(&format!(".equ dp{} = {}dp{}{}\n", i, "(".repeat(ops), i + 1, ")".repeat(ops)));
        }
        pdef.push_str(&format!(".equ dp{} = 1\n.dw low(dp0)", syms));
        add(&format!("equ-chain-{}-symbols-x-{}-parentheses", syms, ops), pdef);
    }
    // exponential evaluation / expansion
    for n in [20usize, 40, 90] {
        let mut e = String::from(".equ ex0 = 1\n");
        for i in 1..=n {
            e.push_str(&format!(".equ ex{} = ex{} + ex{}\n", i, i - 1, i - 1));
        }
        e.push_str(&format!(".dw low(ex{})", n));
        add(&format!("equ-doubling-chain-{}", n), e);
    }
    // substitution of a long argument into a line that mentions the parameter very often: the length
    // limit of an expanded line must act before the text is built
    for (uses, arg_len) in [(1000usize, 1000usize), (16000, 30000), (30000, 60000), (60000, 60000)] {
        add(&format!("macro-substitution-{}-uses-x-{}-characters", uses, arg_len), format!(".macro m\n.dw {}0\n.endm\nm {}", "@0+".repeat(uses), "a".repeat(arg_len)));
        add(&format!("macro-substitution-second-parameter-{}-uses-x-{}-characters", uses, arg_len), format!(".macro m\n.db @0, {}0\n.endm\nm 1, {}", "@1|".repeat(uses), "b".repeat(arg_len)));
    }
    add("macro-argument-doubling", ".macro m\n m @0+@0\n.endm\n m 1".into());
    add("macro-argument-doubling-two", ".macro m\n m @0*@0, @1\n.endm\n m 1, r16".into());
    add("macro-argument-growing-nested", ".macro a\n b (@0)+(@0)+(@0)\n.endm\n.macro b\n a (@0)|(@0)\n.endm\n a 1".into());
    // recursion through every kind of expression node
    for (tag, def) in [("function", "low(a)"), ("unary", "-a"), ("not", "!a"), ("binary-left", "a + 1"), ("binary-right", "1 + a"), ("parentheses", "(a)"), ("nested-function", "high(low(a + 1))"), ("logical", "0 && a"), ("shift", "1 << a")] {
        add(&format!("equ-self-reference-through-{}", tag), format!(".equ a = {}\n.dw a", def));
        add(&format!("equ-cycle-through-{}", tag), format!(".equ a = {}\n.equ b = a\nldi r16, low(b)", def.replace('a', "b")));
        add(&format!("equ-self-reference-through-{}-in-if", tag), format!(".equ a = {}\n.if a\nnop\n.endif", def));
    }
    add("set-self-reference-through-function", ".set a = low(a)\n.dw a".into());
    // operand-count sweep: 0..=40 operands for macros, instructions and directives
    for n in 0..=40usize {
        let ops = vec!["1"; n].join(", ");
        let regs = (0..n).map(|i| format!("r{}", i % 32)).collect::<Vec<_>>().join(", ");
        add(&format!("macro-call-with-{}-operands", n), format!(".macro mo\n.db @0\n.endm\nmo {}", ops));
        add(&format!("macro-call-with-{}-operands-high-placeholders", n), format!(".macro mo\n.db @9, @10, @15, @39\n.endm\nmo {}", ops));
        add(&format!("macro-call-with-{}-register-operands", n), format!(".macro mo\nmov @0, @1\n.endm\nmo {}", regs));
        add(&format!("undefined-macro-with-{}-operands", n), format!("undefined_mo {}", ops));
        for head in ["nop", "ldi", "mov", "lpm", "rjmp", "brbs", ".db", ".dw", ".byte", ".org", ".device", ".if", ".message", ".def", ".equ", ".include", ".macro", ".undef", "#pragma"] {
            add(&format!("{}-with-{}-operands", head, n), format!("{} {}", head, if head == "mov" || head == "lpm" { regs.clone() } else { ops.clone() }));
        }
    }
    add("equ-self-reference", ".equ a = a\n.dw a".into());
    add("equ-self-reference-unused", ".equ a = a+1".into());
    add("equ-cycle-2", ".equ a = b\n.equ b = a\nldi r16, a".into());
    add("equ-cycle-3", ".equ a = b+1\n.equ b = c+1\n.equ c = a+1\n.dw c".into());
    // symbols aren't cached: a symbol that is expensive to evaluate (a chain of doublings, every single
    // use below the per-expression limit) used hundreds of times must not keep the build busy for minutes
    for depth in [16usize, 18] {
        let chain: String = ".equ xd0 = 1\n".to_string() + &(1..=depth).map(|i| format!(".equ xd{} = xd{}+xd{}\n", i, i - 1, i - 1)).collect::<String>();
        add(&format!("expensive-symbol-depth-{}-used-on-600-lines", depth), chain.clone() + &format!(".dw xd{}&1\n", depth).repeat(600));
        add(&format!("expensive-symbol-depth-{}-used-400-times-on-one-line", depth), chain.clone() + ".dw " + &vec![format!("xd{}&1", depth); 400].join(",") + "\n");
        add(&format!("expensive-symbol-depth-{}-in-instructions-and-conditions", depth), chain.clone() + &format!("ldi r16, xd{}&1\n.if xd{}&1\n.db low(xd{})\n.endif\n", depth, depth, depth).repeat(250));
        add(&format!("expensive-symbol-depth-{}-through-macro-calls", depth), chain.clone() + &format!(".macro xm\n.dw @0&1, xd{}&3\n.endm\n", depth) + &format!("xm xd{}\n", depth).repeat(300));
    }
    add("equ-chain-long", (0..3000).map(|i| format!(".equ e{} = e{}+1\n", i, i + 1)).collect::<String>() + ".equ e3000 = 1\n.dw low(e0)");
    add("set-self-reference", ".set a = a\n.dw a".into());
    add("macro-self-call", ".macro m\nm\n.endm\nm".into());
    add("macro-self-call-args", ".macro m\nm @0+1\n.endm\nm 1".into());
    add("macro-mutual-recursion", ".macro a\nb\n.endm\n.macro b\na\n.endm\na".into());
    add("macro-exponential", ".macro a\nnop\n.endm\n".to_string() + &(0..24).map(|i| format!(".macro m{}\n{}\n{}\n.endm\n", i, if i == 0 { "a".to_string() } else { format!("m{}", i - 1) }, if i == 0 { "a".to_string() } else { format!("m{}", i - 1) })).collect::<String>() + "m23");
    add("macro-unclosed", ".macro m\nnop\nnop".into());
    add("macro-nested-definition", ".macro a\n.macro b\nnop\n.endm\n.endm\na\nb".into());
    add("macro-endm-only", ".endm\n.endmacro".into());
    // absurd sizes under every kind of device (no EEPROM at all, tiny, large) and through every way
    // of reaching them: the answer is an error value, not gigabytes of padding
    for dev in ["ATtiny10", "ATtiny11", "ATtiny13", "ATtiny20", "ATmega8", "ATmega2560", "AT94K"] {
        for (way, body) in [
            ("eseg-byte", ".eseg\n.byte {}\n.db 1"),
            ("eseg-org", ".eseg\n.org {}\n.db 1"),
            ("eseg-org-no-item", ".eseg\n.org {}\n.cseg\nnop"),
            ("dseg-byte", ".dseg\n.byte {}\n.byte 1"),
            ("dseg-org", ".dseg\n.org {}\n.byte 1"),
            ("cseg-org", ".org {}\nnop"),
            ("cseg-org-in-macro", ".macro far\n.org @0\nnop\n.endm\nfar {}"),
            ("eseg-byte-in-macro", ".macro big\n.eseg\n.byte @0\n.db 1\n.cseg\n.endm\nbig {}"),
            ("device-after-content", ".eseg\n.byte {}\n.db 1\n.cseg"),
        ] {
            for size in ["0x4000000", "0x40000000", "0xfffffff0"] {
                let text = body.replace("{}", size);
                let src = if way == "device-after-content" { format!("{}\n.device {}", text, dev) } else { format!(".device {}\n{}", dev, text) };
                add(&format!("absurd-size:{}:{}:{}", dev, way, size), src);
            }
        }
    }
    // one name defined by two different kinds of definition (and names the language has taken already),
    // in both orders: whatever the verdict, it is a value
    {
        let defs: [(&str, &str); 8] = [("label", "{}: nop"), ("equ", ".equ {} = 1"), ("set", ".set {} = 2"), ("def", ".def {} = r16"), ("define", ".define {}"), ("macro", ".macro {}\nnop\n.endm"), ("data-label", ".dseg\n{}: .byte 1\n.cseg"), ("undef", ".undef {}")];
        for (ka, ta) in defs.iter() {
            for (kb, tb) in defs.iter() {
                let n = "clash_n";
                add(&format!("name-clash:{}-then-{}", ka, kb), format!("{}\n{}\nldi r17, low({})\nmov {}, r1\n{}\n", ta.replace("{}", n), tb.replace("{}", &n.to_uppercase()), n, n, n));
            }
            for reserved in ["pc", "PC", "r16", "R31", "x", "Z", "low", "exp2", "nop", "ldi", "db", "if", "endm", "device"] {
                add(&format!("name-clash:{}-of-reserved-{}", ka, reserved), format!("nop\n{}\nldi r17, low({})\n.dw {}\n", ta.replace("{}", reserved), reserved, reserved));
            }
        }
    }
    for (tag, s) in [
        ("org-huge-code", ".org 0x7fffffff\nnop"),
        ("org-huge-code-2", ".cseg\n.org 0xffffffff\nnop\nnop"),
        ("org-huge-eseg", ".eseg\n.org 0x7fffffff\n.db 1"),
        ("org-huge-dseg", ".dseg\n.org 0xffffffff\n.byte 1\n.byte 1"),
        ("org-negative", ".org -1\nnop"),
        ("org-64bit", ".org 9223372036854775807\nnop"),
        ("byte-huge-dseg", ".dseg\n.byte 4294967295\n.byte 1"),
        ("byte-huge-eseg", ".eseg\n.byte 2000000000\n.db 1"),
        ("byte-huge-eseg-2", ".eseg\n.byte 4294967295\n.byte 4294967295"),
        ("byte-negative", ".dseg\n.byte -5\n.byte 1"),
        ("byte-negative-eseg", ".eseg\n.byte -1"),
        ("byte-64bit", ".dseg\n.byte 9223372036854775807\n.byte 9223372036854775807"),
        ("device-then-huge-org", ".device ATtiny13\n.org 0x100000\nnop"),
        ("org-huge-no-item", ".org 0x7fffffff"),
        ("many-org", ".org 10\nnop\n.org 20\nnop\n.org 0x3ffffe\nnop\nnop"),
        ("empty", ""),
        ("only-newlines", "\n\n\n\r\n\r\n"),
        ("nul-bytes", "\u{0}\u{0}\u{0}"),
        ("bom", "\u{feff}nop"),
        ("def-non-register", ".def a = b"),
        ("def-number", ".def a = 5"),
        ("def-self", ".def r1 = r1"),
        ("undef-twice", ".def a = r1\n.undef a\n.undef a"),
        ("device-twice", ".device ATmega8\n.device ATmega8"),
        ("include-empty-name", ".include \"\""),
        ("include-directory", ".include \"/\""),
        ("includepath-odd", ".includepath \"\"\n.includepath \"/\"\n.include \"x\""),
        ("exit-then-garbage", ".exit\n((("),
        ("pragma-many", "#pragma a b c d e f g h"),
        ("pragma-strings", "#pragma \"a\" \"b\" 1 2"),
        ("string-unclosed", ".db \"abc"),
        ("char-unclosed", "ldi r16, '"),
        ("char-empty", "ldi r16, ''"),
        ("label-only-colon", ":"),
        ("label-twice-same-line", "a: b: nop"),
        ("index-garbage", "ld r0, X+Y+Z+-"),
        ("index-deep", "ldd r0, Y+((((((((((1))))))))))"),
        ("relative-huge", "rjmp 9223372036854775807"),
        ("relative-min", "rjmp -9223372036854775807-1"),
        ("pc-arith-overflow", "rjmp pc+9223372036854775807"),
        ("shift-negative", ".dw 1<<-1"),
        ("div-min", ".dq (-9223372036854775807-1)/-1"),
        ("rem-min", ".dq (-9223372036854775807-1)%-1"),
        ("neg-min", ".dq -(-9223372036854775807-1)"),
        ("mul-overflow", ".dq 9223372036854775807*9223372036854775807"),
        ("exp2-huge", ".dq exp2(9223372036854775807)"),
        ("log2-negative", ".dq log2(-1)"),
        ("unknown-function", ".dq nosuch(1)"),
        ("function-of-function-name", ".dq 5(1)"),
        ("if-string", ".if \"a\""),
        ("elif-alone", ".elif 1\nnop\n.endif"),
        ("else-alone", ".else\nnop\n.endif\n.endif"),
        ("message-no-string", ".message 5\n.warning lab\n.error"),
        ("db-assign", ".db a = 5"),
        ("equ-oplist", ".equ 5"),
        ("equ-number-name", ".equ 5 = 5"),
        ("set-oplist", ".set"),
        ("set-string", ".set a = \"s\""),
        ("org-string", ".org \"s\""),
        ("byte-string", ".byte \"s\""),
        ("byte-two", ".byte 1, 2"),
        ("device-string", ".device \"ATmega8\""),
        ("define-number", ".define 5"),
        ("ifdef-number", ".ifdef 5\n.endif"),
        ("macro-number", ".macro 5\n.endm"),
        ("undef-number", ".undef 5"),
    ] {
        add(tag, s.to_string());
    }
    add("very-long-identifier", format!("{}: nop\nrjmp {}", "a".repeat(60000), "a".repeat(60000)));
    add("very-long-string", format!(".db \"{}\"", "s".repeat(65000)));
    add("very-long-comment", format!("nop ;{}", "c".repeat(65000)));
    add("very-long-c-comment", format!("nop /*{}*/", "c".repeat(65000)));
    add("many-blank-lines", "\n".repeat(65000));
    v
}

pub fn replay(v: &Value) -> Option<Result<(), String>> {
    if v.get("kind")?.as_str()? == "cli_no_crash" {
        // the source is stored unless it is huge; then it is regenerated from the stress list by its tag
        let mut src = v.get("src")?.as_str()?.to_string();
        if src.is_empty() {
            let tag = v.get("stress_tag")?.as_str()?;
            src = stress_inputs().into_iter().find(|(_, t)| t == tag)?.0;
        }
        let cli = std::env::var("VERIF_CLI").ok()?;
        let dir = crate::run::scratch_dir().join("c16-cli-replay");
        let _ = std::fs::create_dir_all(&dir);
        let f = dir.join("s.asm");
        std::fs::write(&f, &src).ok()?;
        let out = std::process::Command::new("timeout").arg("120").arg(&cli).arg("-s").arg(&f).arg("-o").arg(dir.join("o.hex")).arg("-e").arg(dir.join("o.eep.hex")).env("HOME", &dir).output().ok()?;
        let _ = std::fs::remove_dir_all(&dir);
        return Some(match out.status.code() {
            Some(0) | Some(1) => Ok(()),
            other => Err(format!("the command-line tool ended with {:?}: {}", other, crate::run::truncate(String::from_utf8_lossy(&out.stderr).trim(), 200))),
        });
    }
    if v.get("kind")?.as_str()? != "isolated_no_crash" {
        return None;
    }
    let src = v.get("src")?.as_str()?.to_string();
    let mut slot = Slot::new("replay", false);
    Some(match slot.run(&[src]) {
        Ok(o) => {
            if o[0].is_clean() {
                Ok(())
            } else {
                Err(format!("{:?}", o[0]))
            }
        }
        Err(e) => Err(format!("worker infrastructure: {}", e)),
    })
}

pub fn run(ctx: &Ctx) -> Result<Ev, String> {
    let hs = heads();
    let d = OPERANDS.len();
    let upto2 = 1 + d + d * d;
    let upto3 = upto2 + d * d * d;
    let nh = hs.len();
    let mut legs: Vec<Leg> = vec![];
    {
        // ≤2 operands in every context
        let hs2 = hs.clone();
        let per_ctx = nh * upto2;
        legs.push(Leg {
            name: "dictionary-upto2-all-contexts",
            len: CONTEXTS.len() * per_ctx,
            get: Box::new(move |i| {
                let ctx = i / per_ctx;
                let r = i % per_ctx;
                let h = &hs2[r / upto2];
                (dict_case(h, r % upto2, ctx), format!("{}", h))
            }),
        });
    }
    {
        // 3 operands: alone (quick) / every context (thorough)
        let hs3 = hs.clone();
        let n3 = d * d * d;
        let ctxs = if ctx.thorough { CONTEXTS.len() } else { 1 };
        legs.push(Leg {
            name: "dictionary-3-operands",
            len: ctxs * nh * n3,
            get: Box::new(move |i| {
                let c = i / (nh * n3);
                let r = i % (nh * n3);
                let h = &hs3[r / n3];
                (dict_case(h, upto2 + r % n3, c), format!("{}", h))
            }),
        });
    }
    let _ = upto3;
    // mutation leg: bases from the union generator and the repository's fixtures
    let nbases = if ctx.thorough { 20_000 } else { 1_000 };
    let per_base = if ctx.thorough { 100 } else { 50 };
    let devices = model::model_devices();
    let mut runner = par::plain_runner(ctx.seed, "C16-bases", 0);
    let strat = c14::pair();
    let mut bases: Vec<String> = fixtures();
    let nfix = bases.len();
    while bases.len() < nbases {
        let p = par::draw(&mut runner, &strat);
        let (ast, _) = c14::ast_of(&p.prog, &devices);
        bases.push(render(&ast, p.s1).text);
    }
    let seed = ctx.seed;
    {
        let bases = std::sync::Arc::new(bases);
        legs.push(Leg {
            name: "mutants",
            len: bases.len() * per_base,
            get: Box::new(move |i| {
                let b = i / per_base;
                let mut rng = par::rng_for(seed, "C16-mut", i as u64);
                // fixtures get more weight: their mutants cycle through all mutation kinds
                (mutate(&bases[b], &mut rng), if b < nfix { "fixture".to_string() } else { "generated".to_string() })
            }),
        });
    }
    {
        let mut st = stress_inputs();
        if !ctx.thorough {
            st.retain(|(_, tag)| !SLOW_KNOWN.contains(&tag.as_str()));
        }
        let st = std::sync::Arc::new(st);
        let n = st.len();
        legs.push(Leg { name: "stress", len: n, get: Box::new(move |i| (st[i].0.clone(), st[i].1.clone())) });
    }
    // include cycles and very deep include chains (build_file requests; files live in scratch)
    {
        let dir = crate::run::scratch_dir().join("c16-inc");
        let _ = std::fs::create_dir_all(&dir);
        let w = |n: &str, t: String| {
            let _ = std::fs::write(dir.join(n), t);
        };
        w("self.asm", "nop\n.include \"self.asm\"\n".into());
        w("ma.asm", ".include \"mb.inc\"\n".into());
        w("mb.inc", "nop\n.include \"mc.inc\"\n".into());
        w("mc.inc", ".include \"mb.inc\"\n".into());
        w("cond.asm", ".if 1\n.include \"cond.asm\"\n.endif\n".into());
        for i in 0..3000 {
            w(&format!("chain{}.inc", i), format!("nop\n.include \"chain{}.inc\"\n", i + 1));
        }
        w("chain3000.inc", "nop\n".into());
        w("chain.asm", ".include \"chain0.inc\"\n".into());
        w("chain40.asm", ".include \"chain2960.inc\"\n".into());
        // every file includes the previous one twice (also: eight times over fewer levels)
        w("dbl0.inc", "nop\n".into());
        for i in 1..=24 {
            w(&format!("dbl{}.inc", i), format!(".include \"dbl{}.inc\"\n.include \"dbl{}.inc\"\n", i - 1, i - 1));
        }
        w("doubling.asm", ".device ATtiny13\n.include \"dbl24.inc\"\n".into());
        w("doubling12.asm", ".include \"dbl12.inc\"\n".into());
        w("oct0.inc", ".dw 1\n".into());
        for i in 1..=8 {
            w(&format!("oct{}.inc", i), format!(".include \"oct{}.inc\"\n", i - 1).repeat(8));
        }
        w("fanout8.asm", ".include \"oct8.inc\"\n".into());
        w("bin.asm", ".include \"blob.bin\"\n".into());
        let _ = std::fs::write(dir.join("blob.bin"), (0..20000u32).map(|i| (i * 7919 % 251) as u8).collect::<Vec<u8>>());
        let reqs: Vec<(String, String)> = ["self.asm", "ma.asm", "cond.asm", "chain.asm", "chain40.asm", "bin.asm", "doubling.asm", "doubling12.asm", "fanout8.asm"]
            .iter()
            .map(|n| (format!("\u{2}FILE:{}", json!({"main": dir.join(n).to_string_lossy(), "paths": [dir.to_string_lossy()]})), format!("include:{}", n)))
            .collect();
        let reqs = std::sync::Arc::new(reqs);
        let n = reqs.len();
        legs.push(Leg { name: "include-files", len: n, get: Box::new(move |i| (reqs[i].0.clone(), reqs[i].1.clone())) });
    }
    let total = Mutex::new(Ev::new("C16"));
    let infra: Mutex<Option<String>> = Mutex::new(None);
    for leg in &legs {
        run_leg(leg, &total, &infra);
        if let Some(e) = infra.lock().unwrap().clone() {
            return Err(format!("worker pool failure: {}", e));
        }
    }
    let mut total = total.into_inner().unwrap();
    cli_stress_leg(&mut total, ctx.thorough)?;
    total.extra.insert("heads".into(), json!(nh));
    total.extra.insert("excluded_known_slow_inputs_in_quick_tier".into(), json!(if ctx.thorough { 0 } else { SLOW_KNOWN.len() }));
    total.extra.insert("operand_dictionary".into(), json!(OPERANDS.len()));
    total.extra.insert("mutation_bases".into(), json!(nbases));
    total.samples.sort_by_key(|s| s.to_string());
    Ok(total)
}

/// The structural stress inputs once more through the command-line tool as `cargo build` produces it
/// (unoptimised: every recursion level costs several times the stack of the optimised harness build),
/// on the process's default 8 MiB main stack: the tool must end by itself with an exit status (0 or 1),
/// never by a signal, within the watchdog.
fn cli_stress_leg(total: &mut Ev, thorough: bool) -> Result<(), String> {
    use std::io::Read;
    use std::os::unix::process::ExitStatusExt;
    let cli = match std::env::var("VERIF_CLI").map(std::path::PathBuf::from) {
        Ok(p) if p.exists() => p,
        _ => return Err("VERIF_CLI is not set or does not exist (the check script builds the avra-rs binary for C16)".into()),
    };
    let mut inputs = stress_inputs();
    inputs.retain(|(src, tag)| !SLOW_KNOWN.contains(&tag.as_str()) && (thorough || src.len() <= 300_000));
    let dir = crate::run::scratch_dir().join("c16-cli");
    let _ = std::fs::create_dir_all(&dir);
    let run_one = |i: usize, src: &String, tag: &String, limit_s: u64| -> (String, String, Option<String>) {
            let f = dir.join(format!("s{}.asm", i));
            let _ = std::fs::write(&f, src);
            let mut child = match std::process::Command::new("sh")
                .arg("-c")
                .arg("ulimit -v 1048576; exec \"$0\" -s \"$1\" -o \"$1.hex\" -e \"$1.eep.hex\"")
                .arg(&cli)
                .arg(&f)
                .env("RUST_BACKTRACE", "0")
                .env("HOME", &dir)
                .stdout(std::process::Stdio::null())
                .stderr(std::process::Stdio::piped())
                .spawn()
            {
                Ok(c) => c,
                Err(e) => return (tag.clone(), src.clone(), Some(format!("infrastructure: cannot run the CLI: {}", e))),
            };
            let start = std::time::Instant::now();
            let verdict = loop {
                match child.try_wait() {
                    Ok(Some(st)) => {
                        break match (st.code(), st.signal()) {
                            (Some(0), _) | (Some(1), _) => None,
                            (Some(c), _) => {
                                let mut e = String::new();
                                let _ = child.stderr.take().map(|mut x| x.read_to_string(&mut e));
                                // exit status 101 is a Rust panic, 134 comes through the shell for SIGABRT
                                Some(format!("exit status {} ({})", c, crate::run::truncate(e.trim(), 160)))
                            }
                            (None, Some(sig)) => Some(format!("killed by signal {}", sig)),
                            _ => Some("ended without status".into()),
                        };
                    }
                    Ok(None) => {
                        if start.elapsed().as_secs() >= limit_s {
                            let _ = child.kill();
                            let _ = child.wait();
                            break Some(format!("no result within {} s", limit_s));
                        }
                        std::thread::sleep(std::time::Duration::from_millis(5));
                    }
                    Err(e) => break Some(format!("infrastructure: {}", e)),
                }
            };
            for ext in ["", ".hex", ".eep.hex"] {
                let _ = std::fs::remove_file(format!("{}{}", f.display(), ext));
            }
            (tag.clone(), src.clone(), verdict)
    };
    let mut results: Vec<(String, String, Option<String>)> = inputs.par_iter().enumerate().map(|(i, (src, tag))| run_one(i, src, tag, 60)).collect();
    // a time limit hit while sixteen of these run side by side says little: such inputs run again, alone
    for (i, r) in results.iter_mut().enumerate() {
        if matches!(&r.2, Some(v) if v.contains("within")) {
            *r = run_one(i, &inputs[i].0, &inputs[i].1, 120);
        } else if matches!(&r.2, Some(v) if !v.starts_with("infrastructure")) {
            // a crash counts when it repeats (a process can also be killed by the machine's own shortage of
            // memory while sixteen of them run side by side)
            for _ in 0..2 {
                let again = run_one(i, &inputs[i].0, &inputs[i].1, 120);
                if again.2.is_none() {
                    *r = again;
                    break;
                }
            }
        }
    }
    for (tag, src, verdict) in results {
        total.eval();
        total.class("stress-through-the-debug-cli");
        match verdict {
            None => {}
            Some(v) if v.starts_with("infrastructure") => return Err(format!("C16 CLI leg: {}", v)),
            Some(v) => {
                let kind = if v.contains("signal") || v.contains("status 134") || v.contains("overflow") { "stack-or-abort" } else if v.contains("within") { "timeout" } else if v.contains("status 101") { "panic" } else { "crash" };
                total.violation(Violation { sig: format!("c16:cli-debug:{}:{}", tag, kind), what: format!("{:?} through the unoptimised command-line tool: {}", crate::run::truncate(&src, 120), v), replay: json!({"kind": "cli_no_crash", "src": if src.len() <= 200_000 { src.clone() } else { String::new() }, "stress_tag": tag}) });
            }
        }
    }
    let _ = std::fs::remove_dir_all(&dir);
    Ok(())
}

pub fn rule() -> String {
    "(a) bounded-exhaustive: every directive (37) and mnemonic (incl. all br*/se*/cl* forms and an unknown one) × every operand list of length 0–2 over a dictionary of 29 valid, boundary and hostile operand texts × 5 contexts (alone, after .dseg, after .eseg, inside a macro body that is then called, after .device ATtiny10), and every list of length 3 alone (thorough: in every context); (b) 1–3 random mutations (line delete/duplicate/swap/join, hostile token splice/replace, truncation mid-token, unbalancing .if/.macro, raw bytes, repeated nesting characters ≤ 61) of generated valid programs (union generator) and of the repository's test fixtures, ≤ 64 KiB; (c) ~150 structural stress inputs (nesting depth up to 30000, recursion through .equ / .set / macros, absurd .org/.byte, 64 KiB tokens). Each case is built in an isolated worker (2 MiB stack, 1 GiB address space, 10 s/30 s watchdog); the outcome must be Ok or Err. (d) the stress inputs once more through the unoptimised command-line binary on its default 8 MiB stack: it must end with exit status 0 or 1 within 60 s, never by a signal. Non-trivial = the case is not a well-formed program (the tool returns Err) or it crashes; distinct = distinct source text".into()
}
