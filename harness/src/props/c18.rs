//! C18 — the command-line tool writes what the library built, or fails visibly.

use crate::evidence::{fp, Ev, Violation};
use crate::ihex;
use crate::par;
use crate::run::{build_file, scratch_dir, Outcome};
use crate::Ctx;
use proptest::prelude::*;
use serde_json::{json, Value};
use std::collections::{BTreeMap, BTreeSet};
use std::path::{Path, PathBuf};
use std::process::Command;

#[derive(Clone, Debug)]
pub struct CliCase {
    pub kind: u8,
    pub name: u8,
    pub subdir: bool,
    pub abs: bool,
    /// 0 default, 1 custom writable, 2 missing parent directory, 3 path is an existing directory, 4 /dev/full (can be created, cannot be written)
    pub o: u8,
    pub e: u8,
    pub v: bool,
    pub long: bool,
    pub pre: u8,
    pub n: u8,
    /// 0 = the source is named directly, 1 = through a symbolic link in another directory and with another
    /// stem, 2 = through a symbolic link with another stem in the same directory
    pub link: u8,
}

pub fn cli_case() -> impl Strategy<Value = CliCase> {
    (
        prop_oneof![20 => 0u8..11, 1 => Just(11u8)],
        0u8..7,
        any::<bool>(),
        any::<bool>(),
        prop_oneof![8 => Just(0u8), 6 => Just(1u8), 2 => Just(2u8), 2 => Just(3u8), 2 => Just(4u8), 3 => Just(5u8)],
        prop_oneof![8 => Just(0u8), 6 => Just(1u8), 2 => Just(2u8), 2 => Just(3u8), 2 => Just(4u8), 3 => Just(5u8), 2 => Just(6u8)],
        any::<bool>(),
        any::<bool>(),
        0u8..16,
        any::<u8>(),
        prop_oneof![5 => Just(0u8), 1 => Just(1u8), 1 => Just(2u8)],
    )
        .prop_map(|(kind, name, subdir, abs, o, e, v, long, pre, n, link)| CliCase { kind, name, subdir, abs, o, e, v, long, pre, n, link })
}

pub const KINDS: &[&str] = &["valid-code-only", "valid-code-and-eeprom", "valid-eeprom-only", "empty-source", "failing-syntax", "failing-semantic", "failing-missing-include", "nonexistent-source", "valid-with-local-include", "valid-above-64k", "valid-with-messages", "valid-around-1MiB"];

fn source_text(kind: u8, n: u8) -> Option<String> {
    let body: String = (0..(n % 40) as u32 + 1).map(|i| format!(".dw {}\n", (i.wrapping_mul(2654435761u32) % 65536))).collect();
    Some(match kind {
        0 => format!("start: ldi r16, {}\n rjmp start\n{}", n, body),
        1 => format!("nop\n{}.eseg\n.db {}, 2, 3\n.dw 0x1234\n.cseg\nnop\n", body, n),
        2 => format!(".eseg\n.db \"eeprom only {}\"\n", n),
        3 => String::new(),
        4 => format!("nop\nthis is ((not assembly {}\n", n),
        5 => format!("nop\nldi r16, undefined_symbol_{}\n", n),
        6 => format!("nop\n.include \"no_such_file_{}.inc\"\n", n),
        7 => return None,
        8 => format!(".include \"local.inc\"\nldi r16, LOCAL_VALUE\n{}", body),
        9 => format!("nop\n.org {}\n{}.eseg\n.db 7\n", 33000 + n as u32 * 10, body),
        11 => format!("nop\n.org {}\n{}", 0x80000 - 20 + (n as u32 % 8) * 8, body),
        _ => format!(".message \"hello {}\"\nnop\n.warning \"careful\"\n{}", n, body),
    })
}

/// file names as bytes: the last two are not ASCII, the very last is not even UTF-8
const NAMES: &[&[u8]] = &[b"prog.asm", b"my.prog.asm", b"noext", b"UPPER.ASM", b"a-b_c.s", "pr\u{f6}g \u{3b1}.asm".as_bytes(), b"bad\xff\xfename.asm"];

fn os(b: &[u8]) -> std::ffi::OsString {
    use std::os::unix::ffi::OsStrExt;
    std::ffi::OsStr::from_bytes(b).to_os_string()
}

fn with_ext(stem: &std::ffi::OsStr, ext: &str) -> std::ffi::OsString {
    let mut s = stem.to_os_string();
    s.push(ext);
    s
}
const SENTINEL: &[u8] = b"SENTINEL CONTENT - must survive a failing build\n";

fn snapshot(dir: &Path) -> BTreeMap<PathBuf, Option<Vec<u8>>> {
    let mut m = BTreeMap::new();
    fn walk(d: &Path, root: &Path, m: &mut BTreeMap<PathBuf, Option<Vec<u8>>>) {
        if let Ok(rd) = std::fs::read_dir(d) {
            for e in rd.filter_map(|e| e.ok()) {
                let p = e.path();
                let rel = p.strip_prefix(root).unwrap().to_path_buf();
                if p.is_dir() {
                    m.insert(rel, None);
                    walk(&p, root, m);
                } else {
                    m.insert(rel, std::fs::read(&p).ok());
                }
            }
        }
    }
    walk(dir, dir, &mut m);
    m
}

pub struct Planned {
    pub args: Vec<std::ffi::OsString>,
    /// the path the tool is given (made absolute): the real file or the symbolic link to it
    pub src_abs: PathBuf,
    pub symlinks: Vec<(PathBuf, PathBuf)>,
    pub out_hex: PathBuf,
    pub out_eep: PathBuf,
    pub hex_unwritable: bool,
    pub eep_unwritable: bool,
    pub files: Vec<(PathBuf, Vec<u8>)>,
    pub dirs: Vec<PathBuf>,
    /// the -e path is a second name (hard link) of the file at the -o / default flash path
    pub hardlink: bool,
}

pub fn plan(c: &CliCase, root: &Path) -> Planned {
    let name = os(NAMES[c.name as usize % NAMES.len()]);
    // a source reached through a link in another directory never lives in the working directory itself:
    // there a name "as written" would be found by the tool (cwd = case directory) and not by the
    // harness's own library call, whose working directory is another one
    let subdir = c.subdir || c.link == 1;
    let real_rel = if subdir { PathBuf::from("src dir").join(&name) } else { PathBuf::from(&name) };
    let real_abs = root.join(&real_rel);
    let mut files: Vec<(PathBuf, Vec<u8>)> = vec![];
    let mut symlinks: Vec<(PathBuf, PathBuf)> = vec![];
    let mut dirs: Vec<PathBuf> = vec![root.join("cfg"), root.join("out"), root.join("isdir.hex"), root.join("isdir.eep.hex")];
    if subdir {
        dirs.push(root.join("src dir"));
    }
    if let Some(t) = source_text(c.kind, c.n) {
        files.push((real_abs.clone(), t.into_bytes()));
    }
    if c.kind == 8 {
        files.push((real_abs.parent().unwrap().join("local.inc"), format!(".equ LOCAL_VALUE = {}\n", c.n).into_bytes()));
    }
    // the path the tool is given: the file itself or a symbolic link to it
    let src_rel = match c.link {
        1 => {
            dirs.push(root.join("links"));
            PathBuf::from("links").join("alias.one.asm")
        }
        2 => real_rel.parent().unwrap().join("alias2.s"),
        _ => real_rel.clone(),
    };
    let src_abs = root.join(&src_rel);
    if c.link == 1 || c.link == 2 {
        symlinks.push((src_abs.clone(), real_abs.clone()));
    }
    let stem = src_rel.file_stem().unwrap().to_os_string();
    let default_hex = src_abs.parent().unwrap().join(with_ext(&stem, ".hex"));
    let default_eep = src_abs.parent().unwrap().join(with_ext(&stem, ".eep.hex"));
    let (out_hex, hex_unwritable) = match c.o {
        1 => (root.join("out").join("flash image.hex"), false),
        2 => (root.join("missing_parent").join("x.hex"), true),
        3 => (root.join("isdir.hex"), true),
        4 => (PathBuf::from("/dev/full"), true),
        5 => (root.join("out").join("same file.hex"), false),
        _ => (default_hex.clone(), false),
    };
    let (out_eep, eep_unwritable) = match c.e {
        1 => (root.join("out").join("ee.eep"), false),
        2 => (root.join("missing_parent_e").join("x.eep.hex"), true),
        3 => (root.join("isdir.eep.hex"), true),
        4 => (PathBuf::from("/dev/full"), true),
        5 => (root.join("out").join("same file.hex"), false),
        // e = 6: another name (hard link) of the flash output file, which exists before the run
        6 if !hex_unwritable => (root.join("out").join("second name.hex"), false),
        6 => (root.join("out").join("ee.eep"), false),
        _ => (default_eep.clone(), false),
    };
    let hardlink = c.e == 6 && !hex_unwritable;
    if hardlink {
        files.push((out_hex.clone(), SENTINEL.to_vec()));
        dirs.push(root.join("out"));
    }
    // pre-existing outputs with sentinel content
    if c.pre & 1 != 0 {
        files.push((default_hex.clone(), SENTINEL.to_vec()));
    }
    if c.pre & 2 != 0 {
        files.push((default_eep.clone(), SENTINEL.to_vec()));
    }
    if c.pre & 4 != 0 && (c.o == 1 || c.o == 5) {
        files.push((out_hex.clone(), SENTINEL.to_vec()));
    }
    if c.pre & 8 != 0 && c.e == 1 {
        files.push((out_eep.clone(), SENTINEL.to_vec()));
    }
    let mut args: Vec<std::ffi::OsString> = vec![];
    args.push(if c.long { "--source".into() } else { "-s".into() });
    args.push(if c.abs { src_abs.clone().into_os_string() } else { src_rel.clone().into_os_string() });
    if c.o != 0 {
        args.push(if c.long { "--output".into() } else { "-o".into() });
        // the second spelling of the shared path is not textually equal to the first
        args.push(if c.o == 5 && !c.abs { PathBuf::from("out").join("same file.hex").into_os_string() } else { out_hex.clone().into_os_string() });
    }
    if c.e != 0 {
        args.push(if c.long { "--eeprom".into() } else { "-e".into() });
        args.push(out_eep.clone().into_os_string());
    }
    if c.v {
        args.push(if c.long { "--verbosity".into() } else { "-v".into() });
    }
    Planned { args, src_abs, symlinks, out_hex, out_eep, hex_unwritable, eep_unwritable, files, dirs, hardlink }
}

pub fn cli_path() -> Result<PathBuf, String> {
    let p = std::env::var("VERIF_CLI").map(PathBuf::from).map_err(|_| "VERIF_CLI is not set (the check script builds the avra-rs binary and exports it)".to_string())?;
    if !p.exists() {
        return Err(format!("CLI binary {} does not exist", p.display()));
    }
    Ok(p)
}

/// Executes one case; Err((signature tail, description)).
pub fn run_case(c: &CliCase, root: &Path, cli: &Path) -> Result<Result<(&'static str, bool), (String, String)>, String> {
    let _ = std::fs::remove_dir_all(root);
    let p = plan(c, root);
    std::fs::create_dir_all(root).map_err(|e| e.to_string())?;
    for d in &p.dirs {
        std::fs::create_dir_all(d).map_err(|e| e.to_string())?;
    }
    for (f, content) in &p.files {
        if let Some(parent) = f.parent() {
            std::fs::create_dir_all(parent).map_err(|e| e.to_string())?;
        }
        std::fs::write(f, content).map_err(|e| e.to_string())?;
    }
    for (link, target) in &p.symlinks {
        std::os::unix::fs::symlink(target, link).map_err(|e| e.to_string())?;
    }
    if p.hardlink {
        std::fs::hard_link(&p.out_hex, &p.out_eep).map_err(|e| format!("hard link: {}", e))?;
    }
    // the library's verdict for the same file and include set
    let std_inc = root.join("cfg").join("avra-rs").join("includes");
    let mut paths = BTreeSet::new();
    paths.insert(std_inc);
    let lib = build_file(p.src_abs.clone(), paths);
    let before = snapshot(root);
    // (a tool that does not come back is C16's subject; here it is a machinery failure, exit 2)
    let out = Command::new("timeout")
        .arg("-k")
        .arg("5")
        .arg("300")
        .arg(cli)
        .args(&p.args)
        .current_dir(root)
        .env("HOME", root.join("cfg"))
        .env("XDG_CONFIG_HOME", root.join("cfg"))
        .env("RUST_BACKTRACE", "0")
        .output()
        .map_err(|e| format!("cannot run the CLI: {}", e))?;
    if out.status.code() == Some(124) || out.status.code() == Some(137) {
        return Err(format!("the command-line tool did not finish within 300 s (args {:?})", p.args));
    }
    let after = snapshot(root);
    let code = out.status.code();
    let diag = format!("{}{}", String::from_utf8_lossy(&out.stdout), String::from_utf8_lossy(&out.stderr));
    let kind = KINDS[c.kind as usize % KINDS.len()];
    let ctx = format!("[{} args {:?}] exit {:?}, output: {}", kind, p.args, code, crate::run::truncate(diag.trim(), 200));
    let res: Result<(&'static str, bool), (String, String)> = (|| {
        match &lib {
            Outcome::Ok(b) => {
                let need_hex = !b.code.is_empty();
                let need_eep = !b.eeprom.is_empty();
                // one path for both images: they cannot both be there, so this counts as "cannot be written"
                let clash = need_hex && need_eep && (p.out_hex == p.out_eep || p.hardlink);
                let unwritable = (need_hex && p.hex_unwritable) || (need_eep && p.eep_unwritable) || clash;
                if unwritable {
                    if code == Some(0) {
                        return Err((if clash { "same-output-path:exit-0".into() } else { "unwritable-output:exit-0".into() }, format!("an output file cannot be written but the exit status is 0 {}", ctx)));
                    }
                    if diag.trim().is_empty() {
                        return Err(("unwritable-output:silent".into(), format!("an output file cannot be written and nothing is reported {}", ctx)));
                    }
                    return Ok(("unwritable-output", true));
                }
                if code != Some(0) {
                    return Err(("success:nonzero-exit".into(), format!("the build succeeds and every output is writable, but the exit status is not 0 {}", ctx)));
                }
                // flash image
                let check = |path: &Path, image: &[u8], what: &str| -> Result<(), (String, String)> {
                    if path == Path::new("/dev/full") {
                        // nothing to read back from the device (and reading it never ends); it is only
                        // reached here when there was nothing to write
                        return Ok(());
                    }
                    let rel = path.strip_prefix(root).unwrap_or(path).to_path_buf();
                    match std::fs::read(path) {
                        Ok(bytes) => {
                            if image.is_empty() && before.get(&rel) == Some(&Some(bytes.clone())) {
                                return Ok(()); // untouched pre-existing file for an empty image: not specified
                            }
                            let d = ihex::parse(&bytes).map_err(|e| (format!("{}:malformed", what), format!("{} is not well-formed Intel HEX: {} {}", path.display(), e, ctx)))?;
                            ihex::matches_image(&d, image).map_err(|e| (format!("{}:wrong-content", what), format!("{} does not decode to the library's {} image: {} {}", path.display(), what, e, ctx)))
                        }
                        Err(_) => {
                            if image.is_empty() {
                                Ok(())
                            } else {
                                Err((format!("{}:missing", what), format!("{} was not written {}", path.display(), ctx)))
                            }
                        }
                    }
                };
                let one_file = p.out_hex == p.out_eep || p.hardlink;
                if !one_file || need_hex {
                    check(&p.out_hex, &b.code, "flash")?;
                }
                if !one_file || need_eep {
                    check(&p.out_eep, &b.eeprom, "eeprom")?;
                }
                // nothing else may change: only the two output paths may differ from the snapshot
                for (k, v) in &after {
                    let full = root.join(k);
                    if full == p.out_hex || full == p.out_eep {
                        continue;
                    }
                    if before.get(k) != Some(v) {
                        return Err(("success:stray-file".into(), format!("unexpected file created or altered: {} {}", k.display(), ctx)));
                    }
                }
                Ok((if need_eep { "success-with-eeprom" } else { "success" }, need_eep || c.o != 0 || c.e != 0))
            }
            Outcome::Err(_) => {
                if code == Some(0) {
                    return Err(("failed-build:exit-0".into(), format!("the build fails but the exit status is 0 {}", ctx)));
                }
                if diag.trim().is_empty() {
                    return Err(("failed-build:silent".into(), format!("the build fails and nothing is reported {}", ctx)));
                }
                if before != after {
                    let changed: Vec<String> = after.iter().filter(|(k, v)| before.get(*k) != Some(*v)).map(|(k, _)| k.display().to_string()).chain(before.keys().filter(|k| !after.contains_key(*k)).map(|k| format!("(removed) {}", k.display()))).collect();
                    return Err(("failed-build:files-touched".into(), format!("the build fails but files were created or altered: {:?} {}", changed, ctx)));
                }
                Ok(("failed-build", true))
            }
            Outcome::Panic(pm) => Err(("library-panic".into(), format!("build_file panicked: {} {}", pm, ctx))),
        }
    })();
    let _ = std::fs::remove_dir_all(root);
    Ok(res)
}

fn case_json(c: &CliCase) -> Value {
    json!({"kind": "cli", "k": c.kind, "name": c.name, "subdir": c.subdir, "abs": c.abs, "o": c.o, "e": c.e, "v": c.v, "long": c.long, "pre": c.pre, "n": c.n, "link": c.link,
           "args_relative_to_case_dir": plan(c, Path::new("<case>")).args.iter().map(|a| a.to_string_lossy().to_string()).collect::<Vec<_>>(), "source": source_text(c.kind, c.n)})
}

pub fn replay(v: &Value) -> Option<Result<(), String>> {
    if v.get("kind")?.as_str()? != "cli" {
        return None;
    }
    let g = |k: &str| v.get(k).and_then(|x| x.as_u64()).unwrap_or(0) as u8;
    let b = |k: &str| v.get(k).and_then(|x| x.as_bool()).unwrap_or(false);
    let c = CliCase { kind: g("k"), name: g("name"), subdir: b("subdir"), abs: b("abs"), o: g("o"), e: g("e"), v: b("v"), long: b("long"), pre: g("pre"), n: g("n"), link: g("link") };
    let cli = match cli_path() {
        Ok(p) => p,
        Err(e) => return Some(Err(e)),
    };
    Some(match run_case(&c, &scratch_dir().join("c18-replay"), &cli) {
        Ok(Ok(_)) => Ok(()),
        Ok(Err((k, why))) => Err(format!("{}: {}", k, why)),
        Err(e) => Err(format!("infrastructure: {}", e)),
    })
}

pub fn run(ctx: &Ctx) -> Result<Ev, String> {
    let cli = cli_path()?;
    let shards = 16usize;
    let per = (if ctx.thorough { 20_000 } else { 1_600 } / shards) as u32;
    let seed = ctx.seed;
    let infra: std::sync::Mutex<Option<String>> = std::sync::Mutex::new(None);
    let total = par::run_shards("C18", shards, |s| {
        let root = scratch_dir().join(format!("c18-{}", s));
        par::prop_shard("C18", seed, s, per, &cli_case(), |c, ev| {
            ev.eval();
            ev.class(&format!("source:{}", KINDS[c.kind as usize % KINDS.len()]));
            let mut outcome = run_case(c, &root, &cli);
            // a tool killed by a signal is run again before it counts (it can be the host's doing)
            if matches!(&outcome, Ok(Err((_, why))) if why.contains("exit None")) {
                outcome = run_case(c, &root, &cli);
            }
            match outcome {
                Ok(Ok((class, nontrivial))) => {
                    ev.class(&format!("outcome:{}", class));
                    if nontrivial {
                        ev.nt(fp(&format!("{:?}", c)));
                    }
                    if ev.samples.len() < 2 {
                        ev.samples.push(json!({"source_kind": KINDS[c.kind as usize % KINDS.len()], "args": plan(c, Path::new("<case>")).args.iter().map(|a| a.to_string_lossy().to_string()).collect::<Vec<_>>(), "outcome": class}));
                    }
                    Ok(())
                }
                Ok(Err((k, why))) => Err(Violation { sig: format!("c18:{}", k), what: why, replay: case_json(c) }),
                Err(e) => {
                    *infra.lock().unwrap() = Some(e);
                    Ok(())
                }
            }
        })
    });
    if let Some(e) = infra.into_inner().unwrap() {
        return Err(format!("C18 infrastructure: {}", e));
    }
    if total.has_violation() {
        return Ok(total);
    }
    for required in ["outcome:success", "outcome:success-with-eeprom", "outcome:failed-build", "outcome:unwritable-output", "source:nonexistent-source", "source:valid-above-64k"] {
        if total.classes.get(required).copied().unwrap_or(0) == 0 {
            return Err(format!("generator degenerate: class {} never produced", required));
        }
    }
    Ok(total)
}

pub fn rule() -> String {
    "proptest: source in {valid code only, code + EEPROM, EEPROM only, empty, syntax error, semantic error, missing include, nonexistent file, valid with a local include, valid above 64 KiB, valid with messages} × file name (several stems, dots, no extension, non-ASCII and non-UTF-8 names) in the case directory or reached through a symbolic link with another stem in the same or another directory or a sub-directory with a space × relative or absolute source path × -o / -e each in {absent, writable custom path, missing parent directory, existing directory, /dev/full, one shared path for both images} × -v × short/long option spelling × pre-existing output files with sentinel content; the binary built from the tree runs in a fresh directory with HOME/XDG_CONFIG_HOME inside it. Oracle: build_file in the harness for the same file and include set; success ⇒ exit 0, outputs decode (independent Intel HEX reader) to exactly the library's images, nothing else changes; failing build ⇒ non-zero exit, a diagnostic, directory tree byte-for-byte unchanged; unwritable output ⇒ non-zero exit and a diagnostic. Non-trivial = failing build, unwritable target, EEPROM output or explicit output paths; distinct = distinct case parameters".into()
}
