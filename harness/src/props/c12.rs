//! C12 — memory capacity limits of the selected device are enforced exactly.

use super::c02;
use super::c13::{devices, Dev};
use crate::evidence::{fp, Ev, Violation};
use crate::model::{self, Expect, ModelOpts};
use crate::oracle::Check;
use crate::par;
use crate::render::render;
use crate::run::{build_file, scratch_dir, verif_root, Outcome};
use crate::Ctx;
use rayon::prelude::*;
use serde_json::{json, Value};
use std::collections::BTreeSet;
use std::path::PathBuf;

#[derive(Clone, Debug)]
pub struct CapCase {
    pub device: String,
    pub mem: &'static str,
    pub usage: u64,
    pub cap: u64,
    pub way: u8,
    pub src: String,
    pub expect_ok: bool,
    pub sizes: [u32; 3],
    pub ram_filling: u32,
    pub code_len: Option<usize>,
    pub eeprom_len: Option<usize>,
}

fn dw_fill(words: u64) -> String {
    let mut s = String::new();
    let mut left = words;
    let mut v = 1u32;
    while left > 0 {
        let n = left.min(8);
        s.push_str(".dw ");
        for i in 0..n {
            if i > 0 {
                s.push_str(", ");
            }
            s.push_str(&format!("{}", v % 65536));
            v = v.wrapping_mul(31).wrapping_add(7);
        }
        s.push('\n');
        left -= n;
    }
    s
}

fn flash_prog(u: u64, way: u8, has_jmp: bool, has_eeprom: bool) -> String {
    if u == 0 {
        return String::new();
    }
    match way {
        1 => {
            let start = u.saturating_sub(37);
            let mut s = String::new();
            if start > 0 {
                s.push_str(&format!(".org {}\n", start));
            }
            s.push_str(&dw_fill(u - start));
            s
        }
        2 if u >= 12 => {
            let mut s = String::from("nop\nnop\nnop\n");
            if has_eeprom {
                s.push_str(".eseg\n.db 1\n.cseg\n");
            }
            s.push_str(&format!(".org {}\n", u - 5));
            s.push_str(if has_jmp { "jmp 0\n" } else { "nop\nnop\n" });
            s.push_str(".db 1, 2, 3\nnop\n");
            s
        }
        3 if u >= 3 => format!(".org {}\n.db \"abc\"\n", u - 2),
        _ => {
            if u == 1 {
                "nop\n".into()
            } else {
                format!(".org {}\nnop\n", u - 1)
            }
        }
    }
}

fn eeprom_prog(u: u64, way: u8) -> String {
    if u == 0 {
        return String::new();
    }
    match way {
        1 => format!(".eseg\n.byte {}\n", u),
        2 if u >= 4 => format!(".eseg\n.byte {}\n.db 1, 2, 3\n", u - 3),
        3 if u >= 4 => format!(".eseg\n.db 1\n.cseg\nnop\n.eseg\n.org {}\n.dw 0x1234\n", u - 2),
        _ => {
            if u == 1 {
                ".eseg\n.db 1\n".into()
            } else {
                format!(".eseg\n.org {}\n.db 1\n", u - 1)
            }
        }
    }
}

fn ram_prog(u: u64, way: u8, ram_start: u64) -> String {
    if u == 0 {
        return String::new();
    }
    match way {
        1 if u >= 2 => format!(".dseg\n.org {}\n.byte 1\n", ram_start + u - 1),
        2 if u >= 2 => format!(".dseg\n.byte 1\n.cseg\nnop\n.dseg\n.byte {}\n", u - 1),
        3 if u >= 2 => format!(".dseg\na: .byte {}\nb: .byte {}\n", u / 2, u - u / 2),
        _ => format!(".dseg\n.byte {}\n", u),
    }
}

pub fn grid(devs: &[Dev]) -> Vec<CapCase> {
    let mut out = vec![];
    let mut all: Vec<Option<&Dev>> = vec![None];
    all.extend(devs.iter().map(Some));
    for d in all {
        let (name, flash, ee, ram, ram_start, flags): (String, u64, u64, u64, u64, Vec<String>) = match d {
            None => ("".into(), 4194304, 65536, 8388608, 0x60, vec![]),
            Some(d) => (d.name.clone(), d.flash_words as u64, d.eeprom_size as u64, d.ram_size as u64, d.ram_start as u64, d.flags.clone()),
        };
        let head = if name.is_empty() { String::new() } else { format!(".device {}\n", name) };
        let has_jmp = !flags.iter().any(|f| f == "NoJmp");
        for (mem, cap) in [("flash", flash), ("eeprom", ee), ("ram", ram)] {
            let usages: Vec<u64> = if cap == 0 { vec![0, 1] } else { vec![cap - 1, cap, cap + 1] };
            for u in usages {
                for way in 0..4u8 {
                    let body = match mem {
                        "flash" => flash_prog(u, way, has_jmp, ee > 0),
                        "eeprom" => eeprom_prog(u, way),
                        _ => ram_prog(u, way, ram_start),
                    };
                    let extra_ee = if mem == "flash" && way == 2 && u >= 12 && ee > 0 { 1 } else { 0 };
                    out.push(CapCase {
                        device: name.clone(),
                        mem,
                        usage: u,
                        cap,
                        way,
                        src: format!("{}{}", head, body),
                        expect_ok: u <= cap,
                        sizes: [flash as u32, ee as u32, ram as u32],
                        ram_filling: if mem == "ram" { u as u32 } else { 0 },
                        code_len: match mem {
                            "flash" => Some(u as usize * 2),
                            "eeprom" if way == 3 && u >= 4 => Some(2),
                            "ram" if way == 2 && u >= 2 => Some(2),
                            _ => Some(0),
                        },
                        eeprom_len: if mem == "eeprom" { Some(u as usize) } else { Some(extra_ee) },
                    });
                }
            }
        }
    }
    out
}

/// Where the device is selected and how the memory is reached, beyond the plain grid: `.device`
/// issued from a macro body, inside a conditional or after the content; the last unit placed by a
/// macro whose body starts with `.org`; an over-full memory followed by an `.org` back to its start
/// (in the same segment or after an excursion into another one).  way >= 10.
pub const PLACEMENTS: &[&str] = &["device-in-macro-body", "device-in-taken-conditional", "device-after-the-content", "last-unit-placed-by-macro-with-org", "overfull-then-org-back", "overfull-then-excursion-and-org-back", "device-in-macro-defined-later", "origin-in-empty-segment-then-continued"];

pub fn placement_grid(devs: &[Dev]) -> Vec<CapCase> {
    let mut out = vec![];
    for d in devs {
        let (name, flash, ee, ram, ram_start) = (d.name.clone(), d.flash_words as u64, d.eeprom_size as u64, d.ram_size as u64, d.ram_start as u64);
        for (mem, cap) in [("flash", flash), ("eeprom", ee), ("ram", ram)] {
            let usages: Vec<u64> = if cap == 0 { vec![1] } else { vec![cap, cap + 1] };
            for u in usages {
                let plain = match mem {
                    "flash" => flash_prog(u, 0, false, false),
                    "eeprom" => eeprom_prog(u, 0),
                    _ => ram_prog(u, 1, ram_start),
                };
                let (seg, unit, start) = match mem {
                    "flash" => ("", "nop", 0),
                    "eeprom" => (".eseg\n", ".db 1", 0),
                    _ => (".dseg\n", ".byte 1", ram_start),
                };
                for (pi, pname) in PLACEMENTS.iter().enumerate() {
                    let (src, expect_ok) = match *pname {
                        "device-in-macro-body" => (format!(".macro c12_board\n.device @0\n.endm\nc12_board {}\n{}", name, plain), u <= cap),
                        "device-in-macro-defined-later" => (format!("c12_board\n{}.cseg\n.macro c12_board\n.device {}\n.endm\n", plain, name), u <= cap),
                        "device-in-taken-conditional" => (format!(".equ c12_sel = 1\n.if c12_sel == 0\n.device ATnothing\n.elif c12_sel == 1\n.device {}\n.endif\n{}", name, plain), u <= cap),
                        "device-after-the-content" => (format!("{}.cseg\n.device {}\n", plain, name), u <= cap),
                        "last-unit-placed-by-macro-with-org" => (format!(".device {}\n.macro c12_place\n{}.org @0\n{}\n.cseg\n.endm\nc12_place {}\n", name, seg, unit, start + u - 1), u <= cap),
                        // an origin with nothing behind it, an excursion, then the memory is continued: what
                        // follows lands behind the origin (C02), so u units are in use
                        "origin-in-empty-segment-then-continued" if u >= 2 => (format!(".device {}\n{}.org {}\n.cseg\n.eseg\n.dseg\n.cseg\n{}{}\n{}\n", name, seg, start + u - 2, seg, unit, unit), u <= cap),
                        "overfull-then-org-back" if u > cap => (format!(".device {}\n{}.org {}\n{}\n", name, plain, start, unit), false),
                        "overfull-then-excursion-and-org-back" if u > cap => (format!(".device {}\n{}.cseg\n.eseg\n.dseg\n.cseg\n{}.org {}\n{}\n", name, plain, seg, start, unit), false),
                        _ => continue,
                    };
                    out.push(CapCase {
                        device: name.clone(),
                        mem,
                        usage: u,
                        cap,
                        way: 10 + pi as u8,
                        src,
                        expect_ok,
                        sizes: [flash as u32, ee as u32, ram as u32],
                        ram_filling: if mem == "ram" { u as u32 } else { 0 },
                        code_len: None,
                        eeprom_len: None,
                    });
                }
            }
        }
    }
    out
}

pub fn eval_case(c: &CapCase) -> Result<(), (String, String)> {
    match crate::run::build(&c.src) {
        Outcome::Ok(b) => {
            if !c.expect_ok {
                return Err(("over-capacity-accepted".into(), format!("usage {} > capacity {} of {} accepted", c.usage, c.cap, c.mem)));
            }
            let got = [b.flash_size, b.eeprom_size, b.ram_size];
            if got != c.sizes {
                return Err(("sizes".into(), format!("reported sizes {:?}, device has {:?}", got, c.sizes)));
            }
            if b.ram_filling != c.ram_filling {
                return Err(("ram-filling".into(), format!("ram_filling {} but the data segment extends {} bytes", b.ram_filling, c.ram_filling)));
            }
            if let Some(n) = c.code_len {
                if b.code.len() != n {
                    return Err(("image-length".into(), format!("code image {} bytes, expected {}", b.code.len(), n)));
                }
            }
            if let Some(n) = c.eeprom_len {
                if b.eeprom.len() != n {
                    return Err(("image-length".into(), format!("eeprom image {} bytes, expected {}", b.eeprom.len(), n)));
                }
            }
            Ok(())
        }
        Outcome::Err(e) => {
            if c.expect_ok {
                Err(("within-capacity-rejected".into(), format!("usage {} <= capacity {} of {} rejected: {}", c.usage, c.cap, c.mem, crate::run::truncate(&e, 160))))
            } else {
                Ok(())
            }
        }
        Outcome::Panic(p) => Err(("panic".into(), p)),
    }
}

fn case_json(c: &CapCase) -> Value {
    json!({"kind": "capacity", "src_head": crate::run::truncate(&c.src, 300), "device": c.device, "mem": c.mem, "usage": c.usage, "cap": c.cap, "way": c.way, "expect_ok": c.expect_ok,
           "sizes": c.sizes.to_vec(), "ram_filling": c.ram_filling, "code_len": c.code_len, "eeprom_len": c.eeprom_len, "flags_has_jmp": c.src.contains("jmp 0"), "has_eeprom_block": c.src.contains(".eseg\n.db 1\n.cseg")})
}

pub fn replay(v: &Value) -> Option<Result<(), String>> {
    match v.get("kind")?.as_str()? {
        "capacity" => {
            // regenerate the program text from the parameters (large programs are not stored)
            let devs = devices();
            let dev = v.get("device")?.as_str()?.to_string();
            let mut all = grid(&devs);
            all.extend(placement_grid(&devs));
            let mem = v.get("mem")?.as_str()?;
            let usage = v.get("usage")?.as_u64()?;
            let way = v.get("way")?.as_u64()? as u8;
            // capacity in the replay file is what the table said when the violation was found; the grid is
            // rebuilt from the current table, so look the case up by (device, mem, way) and nearest usage
            let c = all.iter().find(|c| c.device == dev && c.mem == mem && c.way == way && c.usage == usage)?;
            Some(eval_case(c).map_err(|(k, e)| format!("{}: {}", k, e)))
        }
        "shipped" => {
            let file = v.get("file")?.as_str()?;
            let devs = devices();
            let r = check_shipped(file, &devs)?;
            Some(if r.is_empty() { Ok(()) } else { Err(r.into_iter().map(|(s, w)| format!("{}: {}", s, w)).collect::<Vec<_>>().join("; ")) })
        }
        _ => None,
    }
}

#[derive(Debug, Default, Clone)]
pub struct Declared {
    pub device: Option<String>,
    pub flash_bytes: Option<u64>,
    pub eeprom: Option<u64>,
    pub ram_size: Option<u64>,
    pub ram_start: Option<u64>,
}

fn parse_num(s: &str) -> Option<u64> {
    let s = s.trim();
    if let Some(h) = s.strip_prefix("0x").or_else(|| s.strip_prefix("0X")) {
        u64::from_str_radix(h, 16).ok()
    } else if let Some(h) = s.strip_prefix('$') {
        u64::from_str_radix(h, 16).ok()
    } else {
        s.parse().ok()
    }
}

/// The four memory figures a vendor part-definition file declares.
pub fn parse_declared(text: &str) -> Declared {
    let mut d = Declared::default();
    let mut equ: std::collections::BTreeMap<String, u64> = Default::default();
    for line in text.lines() {
        let l = line.trim();
        let code = l.split(';').next().unwrap_or("").trim();
        let toks: Vec<&str> = code.split_whitespace().collect();
        if toks.len() >= 2 && toks[0].eq_ignore_ascii_case(".device") {
            d.device = Some(toks[1].to_string());
        }
        if toks.len() >= 5 && toks[0] == "#pragma" && toks[1] == "AVRPART" && toks[2] == "MEMORY" {
            match (toks[3], toks.get(4).copied(), toks.get(5).copied()) {
                ("PROG_FLASH", Some(v), _) => d.flash_bytes = parse_num(v),
                ("EEPROM", Some(v), _) => d.eeprom = parse_num(v),
                ("INT_SRAM", Some("SIZE"), Some(v)) => d.ram_size = parse_num(v),
                ("INT_SRAM", Some("START_ADDR"), Some(v)) => d.ram_start = parse_num(v),
                _ => {}
            }
        }
        if toks.len() >= 4 && toks[0].eq_ignore_ascii_case(".equ") && toks[2] == "=" {
            if let Some(v) = parse_num(toks[3]) {
                equ.insert(toks[1].to_string(), v);
            }
        }
    }
    if d.flash_bytes.is_none() {
        d.flash_bytes = equ.get("FLASHEND").map(|w| (w + 1) * 2);
    }
    if d.eeprom.is_none() {
        d.eeprom = equ.get("E2END").map(|e| if *e == 0 { 0 } else { e + 1 });
    }
    if d.ram_size.is_none() {
        d.ram_size = equ.get("SRAM_SIZE").copied();
    }
    if d.ram_start.is_none() {
        d.ram_start = equ.get("SRAM_START").copied();
    }
    d
}

fn includes_dir() -> PathBuf {
    verif_root().join("target/repo-snapshot/includes")
}

fn build_with_include(file: &str, body: &str, tag: &str) -> Outcome {
    let dir = scratch_dir().join(format!("c12-{}-{}", rayon::current_thread_index().unwrap_or(0), tag));
    let _ = std::fs::create_dir_all(&dir);
    let main = dir.join("main.asm");
    let _ = std::fs::write(&main, format!(".include \"{}\"\n{}", file, body));
    let mut paths = BTreeSet::new();
    paths.insert(includes_dir());
    let r = build_file(main, paths);
    let _ = std::fs::remove_dir_all(&dir);
    r
}

/// Returns None when the file is out of scope (no .device line / device not in the table / the
/// file itself does not assemble), otherwise the list of (signature, description) mismatches.
pub fn check_shipped(file: &str, devs: &[Dev]) -> Option<Vec<(String, String)>> {
    let text = std::fs::read_to_string(includes_dir().join(file)).ok()?;
    let decl = parse_declared(&text);
    let dev_name = decl.device.clone()?;
    let _dev = devs.iter().find(|d| d.name == dev_name)?;
    // Enforcement is observed twice: with the device selected directly (`.device <name>`), and — when
    // the shipped file itself assembles — through a build that `.include`s it.
    let via_include = build_with_include(file, "", "probe").is_ok();
    let mut bad = vec![];
    let mut builders: Vec<(&str, Box<dyn Fn(&str, &str) -> Outcome>)> = vec![];
    let dn = dev_name.clone();
    builders.push(("device", Box::new(move |body: &str, _tag: &str| crate::run::build(&format!(".device {}\n{}", dn, body)))));
    if via_include {
        let f = file.to_string();
        builders.push(("include", Box::new(move |body: &str, tag: &str| build_with_include(&f, body, tag))));
    }
    for (how, b) in &builders {
        let mut probe = |mem: &str, declared: u64, at: String, over: String| {
            let ok_at = b(&at, mem);
            let ok_over = b(&over, mem);
            if !ok_at.is_ok() {
                bad.push((format!("c12:shipped:{}:{}:declared-capacity-rejected", dev_name, mem), format!("{} declares {} {} but a program using exactly that much is rejected (via {}): {}", file, declared, mem, how, ok_at.brief())));
            }
            if ok_over.is_ok() {
                bad.push((format!("c12:shipped:{}:{}:beyond-declared-accepted", dev_name, mem), format!("{} declares {} {} but a program using one unit more is accepted (via {})", file, declared, mem, how)));
            }
        };
        if let Some(fb) = decl.flash_bytes {
            let w = fb / 2;
            probe("flash", w, flash_prog(w, 0, false, false), flash_prog(w + 1, 0, false, false));
        }
        if let Some(e) = decl.eeprom {
            probe("eeprom", e, eeprom_prog(e, 1), eeprom_prog(e + 1, 1));
        }
        if let Some(r) = decl.ram_size {
            probe("ram", r, ram_prog(r, 0, 0), ram_prog(r + 1, 0, 0));
            if r > 0 {
                if let Some(start) = decl.ram_start {
                    match b(".dseg\nc12_x: .byte 1\n.cseg\n.dd c12_x\n", "ramstart") {
                        Outcome::Ok(br) => {
                            let got = br.code.iter().take(4).enumerate().fold(0u64, |a, (i, x)| a | (*x as u64) << (8 * i));
                            if got != start {
                                bad.push((format!("c12:shipped:{}:ram-start", dev_name), format!("{} declares RAM start {:#x}, first data label is at {:#x} (via {})", file, start, got, how)));
                            }
                        }
                        o => bad.push((format!("c12:shipped:{}:ram-start", dev_name), format!("{}: one byte of RAM rejected (via {}): {}", file, how, o.brief()))),
                    }
                }
            }
        }
    }
    bad.sort();
    bad.dedup_by(|a, b| a.0 == b.0);
    Some(bad)
}

pub fn run(ctx: &Ctx) -> Result<Ev, String> {
    let devs = devices();
    let mut cases = grid(&devs);
    cases.extend(placement_grid(&devs));
    let parts: Vec<Ev> = cases
        .par_iter()
        .enumerate()
        .map(|(i, c)| {
            let mut ev = Ev::new("C12");
            ev.eval();
            if c.way >= 10 {
                ev.class(&format!("placement:{}", PLACEMENTS[(c.way - 10) as usize]));
            }
            ev.class(&format!("grid:{}:{}", c.mem, if c.usage < c.cap { "below" } else if c.usage == c.cap { "at" } else { "above" }));
            if c.usage >= c.cap {
                ev.nt(fp(&(&c.device, c.mem, c.usage, c.way)));
            }
            if i % 401 == 7 {
                ev.samples.push(json!({"device": c.device, "memory": c.mem, "usage": c.usage, "capacity": c.cap, "program_head": crate::run::truncate(&c.src, 120), "expect": if c.expect_ok {"builds"} else {"fails"}}));
            }
            if let Err((kind, why)) = eval_case(c) {
                ev.violation(Violation { sig: if c.way >= 10 { format!("c12:placement:{}:{}:{}", PLACEMENTS[(c.way - 10) as usize], c.mem, kind) } else { format!("c12:grid:{}:{}", c.mem, kind) }, what: format!("device `{}` way {}: {}", c.device, c.way, why), replay: case_json(c) });
            }
            ev
        })
        .collect();
    let mut total = Ev::new("C12");
    for p in parts {
        total.merge(p);
    }
    // unknown / second device
    for (src, sig) in [
        (".device ATnonexistent42\nnop", "unknown-device"),
        (".device\tFoo\n", "unknown-device"),
        (".device ATmega48\n.device ATmega48\nnop", "second-device-same"),
        (".device ATmega48\nnop\n.device ATmega8\nnop", "second-device-different"),
        (".device ATtiny13\n.dseg\n.byte 1\n.device ATtiny13A", "second-device-different"),
        (".device ATtiny13, ATmega8\nnop", "second-device-same-line"),
        (".device ATtiny13 ATmega8\nnop", "second-device-same-line"),
        (".macro c12_m\n.device @0\n.endm\nc12_m ATtiny13\nc12_m ATmega8\nnop", "second-device-through-macro"),
        (".device ATtiny13\n.macro c12_m\n.device ATmega8\n.endm\nnop\nc12_m", "second-device-through-macro"),
        // something that is not a device name at all selects nothing: that is an unknown device too
        (".device \"ATmega8\"\nnop", "unknown-device-not-a-name"),
        (".device 8\nnop", "unknown-device-not-a-name"),
        (".device ATmega8+1\nnop", "unknown-device-not-a-name"),
        (".device -ATmega8\nnop", "unknown-device-not-a-name"),
        (".device low(ATmega8)\nnop", "unknown-device-not-a-name"),
        (".device atmega8_\nnop", "unknown-device"),
        (".device ATmega\nnop", "unknown-device"),
        (".device ATmega88PAX\nnop", "unknown-device"),
    ] {
        total.eval();
        total.class(sig);
        total.nt(fp(&src));
        let chk = Check::MustFail { src: src.to_string(), token: None };
        if let Err(why) = chk.eval() {
            total.violation(Violation { sig: format!("c12:{}:accepted", sig), what: format!("{}: {}", src.replace('\n', " | "), why), replay: chk.to_json() });
        }
    }
    // shipped part-definition files
    let mut files: Vec<String> = std::fs::read_dir(includes_dir()).map_err(|e| format!("cannot list includes: {}", e))?.filter_map(|e| e.ok()).map(|e| e.file_name().to_string_lossy().to_string()).filter(|n| n.ends_with("def.inc")).collect();
    files.sort();
    let results: Vec<(String, Option<Vec<(String, String)>>)> = files.par_iter().map(|f| (f.clone(), check_shipped(f, &devs))).collect();
    let mut skipped = 0u64;
    for (f, r) in results {
        match r {
            None => {
                skipped += 1;
                total.class("shipped:skipped-device-not-in-table");
            }
            Some(bad) => {
                total.evals(7);
                total.class("shipped:checked");
                total.nt(fp(&f));
                for (sig, what) in bad {
                    total.violation(Violation { sig, what, replay: json!({"kind": "shipped", "file": f}) });
                }
            }
        }
    }
    total.extra.insert("shipped_files".into(), json!(files.len()));
    total.extra.insert("shipped_files_skipped".into(), json!(skipped));
    if files.is_empty() {
        return Err("no shipped part-definition files found".into());
    }
    // random mixed programs: sizes and ram_filling against the model
    let opts = ModelOpts { devices: model::model_devices() };
    let shards = 16usize;
    let per = (if ctx.thorough { 200_000 } else { 8_000 } / shards) as u32;
    let seed = ctx.seed;
    let ev = par::run_shards("C12", shards, |s| {
        par::prop_shard("C12", seed, s, per, &c02::raw_prog(), |r, ev| {
            ev.eval();
            let b = c02::build(r, &opts.devices, false);
            let text = render(&b.prog, r.style).text;
            match model::assemble(&b.prog, &opts).0 {
                Expect::Ok(img) => {
                    ev.class("random:sizes-checked");
                    let chk = Check::Image { src: text, code: None, eeprom: None, ram_filling: Some(img.ram_filling), sizes: Some(img.sizes), messages: None };
                    chk.eval().map_err(|why| Violation { sig: "c12:random:sizes".into(), what: why, replay: chk.to_json() })
                }
                _ => {
                    ev.discarded += 1;
                    Ok(())
                }
            }
        })
    });
    total.merge(ev);
    Ok(total)
}

pub fn rule() -> String {
    "exhaustive grid: every device of the table + no device × {flash, EEPROM, RAM} × usage {cap-1, cap, cap+1} (cap = 0: {0,1}) × 4 ways of reaching it (.org + one item, bulk data lines, .byte reservations / padded odd .db, mixture over several blocks); every shipped includes/*def.inc whose .device is in the table: its four declared figures vs real builds through build_file that .include it and use exactly the declared capacity / one unit more / one RAM byte; unknown and second .device (also on one line, through macros, operands that are not names); placements: .device from a macro body / conditional / after the content, last unit placed by a macro starting with .org, over-full memory followed by .org back to its start; plus random multi-segment programs (C02 generator) for reported sizes and ram_filling. Non-trivial = usage = cap or cap+1, shipped-file probes, device-selection errors; distinct = distinct (device, memory, usage, way) / file".into()
}
