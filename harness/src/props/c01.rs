//! C01 — every valid instruction assembles to its exact AVR ISA machine code.
//!
//! Bounded-exhaustive enumeration of (mnemonic, legal operand tuple); instructions are packed
//! into batch programs, the expected image is the concatenation of `isa::assemble`; a batch
//! that differs is bisected down to single instructions, which become the replay cases.

use crate::evidence::{fp, Ev, Violation};
use crate::isa::{self, Core, Opd, PMode, Ptr, Verdict};
use crate::oracle::Check;
use crate::par;
use crate::run::{build, Outcome};
use crate::Ctx;
use rayon::prelude::*;
use serde_json::json;

/// One enumerated case.  `rel` marks the operand that is a signed displacement and has to be
/// turned into a target (`pc+1+d`) once the position inside the batch is known.
#[derive(Clone, Debug)]
pub struct Case {
    pub m: String,
    pub ops: Vec<Opd>,
    pub rel: Option<usize>,
}

pub struct Space {
    pub name: String,
    pub len: u64,
    pub device: Option<&'static str>,
    pub core: Core,
    /// number of equal-sized blocks of the index space that are distinct addressing forms
    pub subforms: u64,
    pub get: Box<dyn Fn(u64) -> Case + Sync + Send>,
}

fn sp(name: &str, len: u64, get: impl Fn(u64) -> Case + Sync + Send + 'static) -> Space {
    Space { name: name.to_string(), len, device: None, core: Core::Full, subforms: 1, get: Box::new(get) }
}

fn case(m: &str, ops: Vec<Opd>) -> Case {
    Case { m: m.to_string(), ops, rel: None }
}

pub const PTR_FORMS: &[(Ptr, PMode)] = &[
    (Ptr::X, PMode::Plain),
    (Ptr::X, PMode::PostInc),
    (Ptr::X, PMode::PreDec),
    (Ptr::Y, PMode::Plain),
    (Ptr::Y, PMode::PostInc),
    (Ptr::Y, PMode::PreDec),
    (Ptr::Z, PMode::Plain),
    (Ptr::Z, PMode::PostInc),
    (Ptr::Z, PMode::PreDec),
];

/// Address sample for jmp/call in the quick tier: all addresses with at most two bits set or
/// cleared, every multiple of 64 K ± 1, plus `extra` seeded random ones.
fn jmp_sample(seed: u64, extra: usize) -> Vec<i64> {
    let top = 1i64 << 22;
    let mut v: Vec<i64> = vec![0, top - 1];
    for a in 0..22 {
        v.push(1 << a);
        v.push((top - 1) ^ (1 << a));
        for b in 0..a {
            v.push(1 << a | 1 << b);
            v.push((top - 1) ^ (1 << a | 1 << b));
        }
    }
    for k in 0..64i64 {
        for d in [-1i64, 0, 1] {
            let x = k * 65536 + d;
            if (0..top).contains(&x) {
                v.push(x);
            }
        }
    }
    use proptest::prelude::RngCore;
    let mut rng = par::rng_for(seed, "C01-jmp", 0);
    for _ in 0..extra {
        v.push((rng.next_u64() & (top as u64 - 1)) as i64);
    }
    v.sort();
    v.dedup();
    v
}

pub fn spaces(thorough: bool, seed: u64) -> Vec<Space> {
    use Opd::*;
    let mut v: Vec<Space> = vec![];
    for (m, _) in isa::TWO_REG {
        let m = m.to_string();
        v.push(sp(&m.clone(), 1024, move |i| case(&m, vec![R((i / 32) as u8), R((i % 32) as u8)])));
    }
    for (m, _) in isa::IMM {
        let m = m.to_string();
        // d in 16..32, K in -128..=255
        v.push(sp(&m.clone(), 16 * 384, move |i| case(&m, vec![R(16 + (i / 384) as u8), K((i % 384) as i64 - 128)])));
    }
    for (m, _) in isa::ONE_REG.iter().chain(isa::ONE_REG_ALIAS) {
        let m = m.to_string();
        v.push(sp(&m.clone(), 32, move |i| case(&m, vec![R(i as u8)])));
    }
    v.push(sp("ser", 16, |i| case("ser", vec![R(16 + i as u8)])));
    v.push(sp("muls", 256, |i| case("muls", vec![R(16 + (i / 16) as u8), R(16 + (i % 16) as u8)])));
    for (m, _) in isa::FMUL {
        let m = m.to_string();
        v.push(sp(&m.clone(), 64, move |i| case(&m, vec![R(16 + (i / 8) as u8), R(16 + (i % 8) as u8)])));
    }
    for m in ["adiw", "sbiw"] {
        v.push(sp(m, 4 * 64, move |i| case(m, vec![R(24 + 2 * (i / 64) as u8), K((i % 64) as i64)])));
    }
    v.push(sp("movw", 256, |i| case("movw", vec![R(2 * (i / 16) as u8), R(2 * (i % 16) as u8)])));
    for m in ["ld", "st"] {
        let mut s = sp(m, 9 * 32, move |i| {
            let (p, mo) = PTR_FORMS[(i / 32) as usize];
            let r = R((i % 32) as u8);
            if m == "ld" {
                case(m, vec![r, P(p, mo)])
            } else {
                case(m, vec![P(p, mo), r])
            }
        });
        s.subforms = 9;
        v.push(s);
    }
    for m in ["ldd", "std"] {
        let mut s = sp(m, 2 * 64 * 32, move |i| {
            let p = if i / 2048 == 0 { Ptr::Y } else { Ptr::Z };
            let q = Q(p, ((i / 32) % 64) as i64);
            let r = R((i % 32) as u8);
            if m == "ldd" {
                case(m, vec![r, q])
            } else {
                case(m, vec![q, r])
            }
        });
        s.subforms = 2;
        v.push(s);
    }
    for m in ["lpm", "elpm"] {
        let mut s = sp(&format!("{} Rd,Z[+]", m), 64, move |i| {
            case(m, vec![R((i % 32) as u8), P(Ptr::Z, if i / 32 == 0 { PMode::Plain } else { PMode::PostInc })])
        });
        s.subforms = 2;
        v.push(s);
    }
    for (m, _) in isa::NO_OPERAND {
        let m = m.to_string();
        v.push(sp(&m.clone(), 1, move |_| case(&m, vec![])));
    }
    v.push(sp("in", 2048, |i| case("in", vec![R((i / 64) as u8), K((i % 64) as i64)])));
    v.push(sp("out", 2048, |i| case("out", vec![K((i % 64) as i64), R((i / 64) as u8)])));
    for (m, _) in isa::IO_BIT {
        let m = m.to_string();
        v.push(sp(&m.clone(), 256, move |i| case(&m, vec![K((i / 8) as i64), K((i % 8) as i64)])));
    }
    for (m, _) in isa::REG_BIT {
        let m = m.to_string();
        v.push(sp(&m.clone(), 256, move |i| case(&m, vec![R((i / 8) as u8), K((i % 8) as i64)])));
    }
    for m in ["bset", "bclr"] {
        v.push(sp(m, 8, move |i| case(m, vec![K(i as i64)])));
    }
    for f in isa::FLAGS {
        for pre in ["se", "cl"] {
            let m = format!("{}{}", pre, f);
            v.push(sp(&m.clone(), 1, move |_| case(&m, vec![])));
        }
    }
    for (suf, _, _) in isa::BRANCHES {
        let m = format!("br{}", suf);
        v.push(sp(&m.clone(), 128, move |i| Case { m: m.clone(), ops: vec![K(i as i64 - 64)], rel: Some(0) }));
    }
    for m in ["brbs", "brbc"] {
        v.push(sp(m, 8 * 128, move |i| Case { m: m.to_string(), ops: vec![K((i / 128) as i64), K((i % 128) as i64 - 64)], rel: Some(1) }));
    }
    for m in ["rjmp", "rcall"] {
        v.push(sp(m, 4096, move |i| Case { m: m.to_string(), ops: vec![K(i as i64 - 2048)], rel: Some(0) }));
    }
    v.push(sp("lds", 32 << 16, |i| case("lds", vec![R((i >> 16) as u8), K((i & 0xffff) as i64)])));
    v.push(sp("sts", 32 << 16, |i| case("sts", vec![K((i & 0xffff) as i64), R((i >> 16) as u8)])));
    if thorough {
        v.push(sp("jmp", 1 << 22, |i| case("jmp", vec![K(i as i64)])));
        v.push(sp("call", 1 << 22, |i| case("call", vec![K(i as i64)])));
    } else {
        for m in ["jmp", "call"] {
            let sample = jmp_sample(seed, 200_000);
            v.push(sp(&format!("{} (sampled addresses)", m), sample.len() as u64, move |i| case(m, vec![K(sample[i as usize])])));
        }
    }
    // reduced core: one-word lds/sts, on every device whose table entry carries the flag
    for dev in ["ATtiny20"] {
        for m in ["lds", "sts"] {
            let mut s = sp(&format!("{} one-word ({})", m, dev), 16 * 128, move |i| {
                let r = R(16 + (i / 128) as u8);
                let k = K(0x40 + (i % 128) as i64);
                if m == "lds" {
                    case(m, vec![r, k])
                } else {
                    case(m, vec![k, r])
                }
            });
            s.device = Some(dev);
            s.core = Core::Avr8l;
            v.push(s);
        }
    }
    v
}

pub fn render_line(c: &Case, pc: i64) -> (String, Vec<Opd>) {
    let mut ops = c.ops.clone();
    let mut texts: Vec<String> = c.ops.iter().map(|o| o.to_string()).collect();
    if let Some(ri) = c.rel {
        if let Opd::K(d) = c.ops[ri] {
            ops[ri] = Opd::K(pc + 1 + d);
            let off = d + 1;
            texts[ri] = if off >= 0 { format!("pc+{}", off) } else { format!("pc-{}", -off) };
        }
    }
    let line = if texts.is_empty() { c.m.clone() } else { format!("{} {}", c.m, texts.join(", ")) };
    (line, ops)
}

struct Built {
    src: String,
    expected: Vec<u8>,
    /// (line text, expected words, evaluated ops, pc) per case
    per: Vec<(String, Vec<u16>, Vec<Opd>, i64)>,
}

fn assemble_batch(cases: &[Case], device: Option<&str>, core: Core) -> Result<Built, String> {
    let mut src = String::new();
    if let Some(d) = device {
        src.push_str(&format!(".device {}\n", d));
    }
    let mut expected = vec![];
    let mut per = vec![];
    let mut pc = 0i64;
    for c in cases {
        let (line, ops) = render_line(c, pc);
        let words = match isa::assemble(&c.m, &ops, core, pc) {
            Verdict::Legal(w) | Verdict::Either(w) => w,
            Verdict::Illegal => return Err(format!("reference judges enumerated case illegal: {} {:?}", c.m, ops)),
        };
        isa::roundtrip_ok(&c.m, &ops, core, pc, &words).map_err(|e| format!("reference self-test: {}", e))?;
        src.push_str(&line);
        src.push('\n');
        for w in &words {
            expected.push((*w & 0xff) as u8);
            expected.push((*w >> 8) as u8);
        }
        let n = words.len() as i64;
        per.push((line, words, ops, pc));
        pc += n;
    }
    Ok(Built { src, expected, per })
}

fn bisect(cases: &[Case], device: Option<&'static str>, core: Core, ev: &mut Ev, budget: &mut u32) -> Result<(), String> {
    if cases.is_empty() || *budget == 0 {
        return Ok(());
    }
    let b = assemble_batch(cases, device, core)?;
    let out = build(&b.src);
    let same = matches!(&out, Outcome::Ok(r) if r.code == b.expected);
    if same {
        return Ok(());
    }
    if cases.len() == 1 {
        *budget -= 1;
        let c = &cases[0];
        let kind = match &out {
            Outcome::Ok(_) => "wrong-words",
            Outcome::Err(_) => "rejected",
            Outcome::Panic(_) => "panic",
        };
        let core_s = if core == Core::Avr8l { ":avr8l" } else { "" };
        let form = if c.ops.is_empty() { "bare" } else { "ops" };
        let sig = format!("enc:{}{}:{}:{}", c.m, core_s, form, kind);
        let chk = Check::image_code(b.src.clone(), b.expected.clone());
        ev.violation(Violation {
            sig,
            what: format!("`{}` expected words {:04x?} ({}), got {}", b.per[0].0, b.per[0].1, if device.is_some() { device.unwrap() } else { "no device" }, out.brief()),
            replay: chk.to_json(),
        });
        return Ok(());
    }
    let mid = cases.len() / 2;
    bisect(&cases[..mid], device, core, ev, budget)?;
    bisect(&cases[mid..], device, core, ev, budget)?;
    Ok(())
}

pub const BATCH: u64 = 4096;

pub fn run(ctx: &Ctx) -> Result<Ev, String> {
    isa::self_test()?;
    let spaces = spaces(ctx.thorough, ctx.seed);
    // work list: (space index, start, end)
    let mut work: Vec<(usize, u64, u64)> = vec![];
    for (si, s) in spaces.iter().enumerate() {
        let mut a = 0;
        while a < s.len {
            let b = (a + BATCH).min(s.len);
            work.push((si, a, b));
            a = b;
        }
    }
    let results: Vec<Result<Ev, String>> = work
        .par_iter()
        .map(|(si, a, b)| {
            let s = &spaces[*si];
            let mut ev = Ev::new("C01");
            let cases: Vec<Case> = (*a..*b).map(|i| (s.get)(i)).collect();
            let built = assemble_batch(&cases, s.device, s.core)?;
            for (c, p) in cases.iter().zip(built.per.iter()) {
                ev.eval();
                // non-trivial: some operand field of the encoding is non-zero
                let base = match isa::assemble(&c.m, &zeroed(&c, p.3, s.core), s.core, p.3) {
                    Verdict::Legal(w) | Verdict::Either(w) => w,
                    Verdict::Illegal => vec![],
                };
                if base != p.1 {
                    ev.nt(fp(&(&c.m, &c.ops, s.core == Core::Avr8l)));
                }
            }
            ev.class_n(&format!("form:{}", s.name), cases.len() as u64);
            if *a == 0 {
                let mid = built.per.len() / 2;
                ev.samples.push(json!({"form": s.name, "device": s.device, "line": built.per[mid].0, "expected_words": built.per[mid].1.iter().map(|w| format!("{:04x}", w)).collect::<Vec<_>>()}));
            }
            let out = build(&built.src);
            let same = matches!(&out, Outcome::Ok(r) if r.code == built.expected);
            if !same {
                let mut budget = 6;
                bisect(&cases, s.device, s.core, &mut ev, &mut budget)?;
            }
            Ok(ev)
        })
        .collect();
    let mut total = Ev::new("C01");
    for r in results {
        total.merge(r?);
    }
    // length leg: the position after every form must advance by exactly the number of words emitted
    // (a label placed after the instruction is observed through `.dw label`)
    for s in spaces.iter() {
        for i in [0, s.len / 2, s.len - 1] {
            let c = (s.get)(i);
            let (line, ops) = render_line(&c, 1);
            let words = match isa::assemble(&c.m, &ops, s.core, 1) {
                Verdict::Legal(w) | Verdict::Either(w) => w,
                Verdict::Illegal => continue,
            };
            let mut src = String::new();
            if let Some(d) = s.device {
                src.push_str(&format!(".device {}\n", d));
            }
            src.push_str(&format!("nop\n{}\nc01_after:\nnop\n.dw c01_after\n", line));
            let mut expected: Vec<u8> = vec![0, 0];
            for w in &words {
                expected.push((*w & 0xff) as u8);
                expected.push((*w >> 8) as u8);
            }
            expected.extend_from_slice(&[0, 0]);
            let after = 1 + words.len() as u16;
            expected.push((after & 0xff) as u8);
            expected.push((after >> 8) as u8);
            total.eval();
            total.class("length-leg");
            let chk = Check::image_code(src.clone(), expected);
            if let Err(why) = chk.eval() {
                total.violation(Violation { sig: format!("enc:{}{}:length", c.m, if s.core == Core::Avr8l { ":avr8l" } else { "" }), what: format!("a label after `{}` must be {} word(s) further: {}", line, words.len(), why), replay: chk.to_json() });
            }
        }
    }
    // context leg: the same forms where the bookkeeping around them differs — first item after an
    // `.org`, after excursions into the other segments, registers spelled through aliases (defined in
    // the code or in the data segment), and under full-featured devices
    {
        use proptest::prelude::RngCore;
        let devs = crate::props::c13::devices();
        let mut rng = crate::par::rng_for(ctx.seed, "C01-context", 0);
        for s in spaces.iter() {
            let mut idx = vec![0, s.len / 2, s.len - 1];
            for _ in 0..3 {
                idx.push(rng.next_u64() % s.len);
            }
            idx.sort();
            idx.dedup();
            for (n, i) in idx.into_iter().enumerate() {
                let c = (s.get)(i);
                let dev_line = s.device.map(|d| format!(".device {}\n", d)).unwrap_or_default();
                let mut variants: Vec<(&str, String, i64, Vec<u8>)> = vec![]; // (context, source, pc, bytes in front)
                {
                    let (line, _) = render_line(&c, 0x10);
                    variants.push(("first-after-org", format!("{}.org 0x10\n{}\n", dev_line, line), 0x10, vec![0; 0x20]));
                    let (line, _) = render_line(&c, 1);
                    if s.device.is_none() {
                        variants.push(("after-eeprom-excursion", format!("nop\n.eseg\n.db 1\n.cseg\n{}\n", line), 1, vec![0, 0]));
                    }
                    let (line, _) = render_line(&c, 0x21);
                    variants.push(("after-data-excursion-and-org", format!("{}.dseg\n.byte 1\n.cseg\n.org 0x21\n{}\n", dev_line, line), 0x21, vec![0; 0x42]));
                    // directly behind data in flash: an odd .db (padded), a .dd, a .dq, a string
                    for (k, (data, bytes)) in [(".db 1, 2, 3", vec![1u8, 2, 3, 0]), (".dd 0x12345678", vec![0x78, 0x56, 0x34, 0x12]), (".dq 1", vec![1, 0, 0, 0, 0, 0, 0, 0]), (".db \"ab\"\n.dw 7", vec![b'a', b'b', 7, 0])].into_iter().enumerate() {
                        if (n + k) % 2 == 0 {
                            let at = (bytes.len() / 2) as i64;
                            let (line, _) = render_line(&c, at);
                            variants.push(("directly-behind-data-in-flash", format!("{}{}\n{}\n", dev_line, data, line), at, bytes));
                        }
                    }
                    let (line, _) = render_line(&c, 3);
                    variants.push(("second-code-segment-continued", format!("{}nop\n.dseg\n.cseg\nnop\n.eseg\n.cseg\nnop\n{}\n", dev_line, line), 3, vec![0; 6]));
                }
                // aliases
                if c.ops.iter().any(|o| matches!(o, Opd::R(_))) {
                    for (tag, open, close) in [("alias-defined-in-code-segment", "", ""), ("alias-defined-in-data-segment", ".dseg\n", ".cseg\n")] {
                        let mut pre = String::from(open);
                        let mut c2 = c.clone();
                        let (line, _) = render_line(&c2, 0);
                        let mut text = line.clone();
                        // replace register operands right to left in the operand list of the rendered line
                        let (head, tail) = match text.split_once(' ') {
                            Some((h, t)) => (h.to_string(), t.to_string()),
                            None => (text.clone(), String::new()),
                        };
                        let mut parts: Vec<String> = tail.split(", ").map(|x| x.to_string()).collect();
                        for (k, o) in c2.ops.iter_mut().enumerate() {
                            if let Opd::R(r) = o {
                                pre.push_str(&format!(".def C01_al{} = r{}\n", k, r));
                                parts[k] = format!("c01_AL{}", k);
                            }
                        }
                        pre.push_str(close);
                        text = format!("{} {}", head, parts.join(", "));
                        variants.push((tag, format!("{}{}{}\n", dev_line, pre, text), 0, vec![]));
                    }
                }
                // full-featured devices (forms the device lacks are C13's business)
                if s.device.is_none() {
                    let dname = ["ATmega2560", "ATmega128", "ATmega328P", "ATmega8", "ATtiny2313", "ATtiny13", "ATtiny25", "ATmega48", "AT90S2313", "ATmega16"][(n + c.m.len()) % 10];
                    if let Some(d) = devs.iter().find(|d| d.name == dname) {
                        let (line, ops) = render_line(&c, 0);
                        if !isa::gate(&d.flags, &c.m, &ops) {
                            variants.push(("under-a-device", format!(".device {}\n{}\n", dname, line), 0, vec![]));
                        }
                    }
                }
                for (tag, src, pc, front) in variants {
                    let (_, ops) = render_line(&c, pc);
                    let words = match isa::assemble(&c.m, &ops, s.core, pc) {
                        Verdict::Legal(w) | Verdict::Either(w) => w,
                        Verdict::Illegal => continue,
                    };
                    let mut expected = front.clone();
                    for w in &words {
                        expected.push((*w & 0xff) as u8);
                        expected.push((*w >> 8) as u8);
                    }
                    total.eval();
                    total.class(&format!("context:{}", tag));
                    let chk = Check::image_code(src.clone(), expected);
                    if let Err(why) = chk.eval() {
                        total.violation(Violation { sig: format!("enc:{}{}:context:{}", c.m, if s.core == Core::Avr8l { ":avr8l" } else { "" }, tag), what: format!("`{}`: {}", src.replace('\n', " | "), why), replay: chk.to_json() });
                    }
                }
            }
        }
    }
    total.extra.insert("forms".into(), json!(spaces.len()));
    Ok(total)
}

/// The same case with every operand at its smallest legal value (to decide non-triviality).
fn zeroed(c: &Case, pc: i64, core: Core) -> Vec<Opd> {
    let small = core == Core::Avr8l && matches!(c.m.as_str(), "lds" | "sts");
    c.ops
        .iter()
        .enumerate()
        .map(|(i, o)| match o {
            Opd::R(r) => Opd::R(match c.m.as_str() {
                "adiw" | "sbiw" => 24,
                _ if small => 16,
                _ if *r >= 16 && matches!(c.m.as_str(), "subi" | "sbci" | "andi" | "ori" | "cpi" | "ldi" | "sbr" | "cbr" | "ser" | "muls" | "mulsu" | "fmul" | "fmuls" | "fmulsu") => 16,
                _ => 0,
            }),
            Opd::K(_) if Some(i) == c.rel => Opd::K(pc + 1),
            Opd::K(_) if small => Opd::K(0x40),
            Opd::K(_) => Opd::K(0),
            Opd::P(p, m) => Opd::P(*p, *m),
            Opd::Q(p, _) => Opd::Q(*p, 0),
        })
        .collect()
}

pub fn rule() -> String {
    "bounded-exhaustive enumeration of (mnemonic, legal operand tuple) per DESIGN §5 C01 (quick: jmp/call addresses sampled, everything else complete); a case is non-trivial when its expected encoding differs from the same form with all operands at their smallest legal value (some operand field non-zero); distinct = distinct (mnemonic, operands, core)".into()
}
