//! C14 — surface syntax that carries no meaning never changes the output.
//!
//! A valid program from the union of the other generators × two independently generated styles
//! (comments of three kinds with hostile text, blank/comment-only lines, spaces/tabs at the
//! permitted positions, LF/CRLF, case of mnemonics / registers / function names / symbol
//! references, radix and zero padding of literals).  Both renderings must give the result of the
//! canonical rendering (or fail like it does).

use super::{c02, c03, c05, c06, c08, c09, c10};
use crate::ast::Ln;
use crate::evidence::{fp, Ev, Violation};
use crate::gen;
use crate::model;
use crate::oracle::Check;
use crate::par;
use crate::render::{render, Style, ALL_DIMS, TOKEN_DIMS};
use crate::run::{build, Outcome};
use crate::Ctx;
use proptest::prelude::*;
use serde_json::json;

#[derive(Clone, Debug)]
pub enum Prog {
    Layout(c02::RawProg),
    Expr(c05::TreeCase),
    Data(c06::RawData),
    Cond(c08::RawCase),
    Macro(c09::RawMacros),
    Syms(c10::RawSyms),
    Rel(c03::RelCase),
}

#[derive(Clone, Debug)]
pub struct Pair {
    pub prog: Prog,
    pub s1: Style,
    pub s2: Style,
}

pub fn pair() -> impl Strategy<Value = Pair> {
    let prog = prop_oneof![
        2 => c02::raw_prog().prop_map(Prog::Layout),
        2 => c05::tree_case().prop_map(Prog::Expr),
        2 => c06::raw_data().prop_map(|mut d| { d.fault = c06::Fault::None; Prog::Data(d) }),
        2 => c08::raw_case().prop_map(Prog::Cond),
        3 => c09::raw_macros().prop_map(|mut m| { m.leg = c09::Leg::Valid; Prog::Macro(m) }),
        3 => c10::raw_syms().prop_map(|mut s| { s.variant = c10::Variant::Valid; Prog::Syms(s) }),
        2 => c03::rel_case().prop_map(|r| Prog::Rel(c03::clamp_reachable(r))),
    ];
    (prog, gen::style(), gen::style()).prop_map(|(prog, s1, s2)| Pair { prog, s1, s2 })
}

pub fn ast_of(p: &Prog, devices: &[model::DeviceInfo]) -> (Vec<Ln>, &'static str) {
    match p {
        Prog::Layout(r) => (c02::build(r, devices, true).prog, "layout"),
        Prog::Expr(t) => (c05::program(t), "expr"),
        Prog::Data(d) => (c06::build(d).0, "data"),
        Prog::Cond(c) => (c08::build(c).0, "cond"),
        Prog::Macro(m) => (c09::build(m).prog, "macro"),
        Prog::Syms(s) => (c10::build(s).prog, "syms"),
        Prog::Rel(r) => (c03::build(r).prog, "branch"),
    }
}

const DIM_NAMES: &[&str] = &["comment", "blank-lines", "spacing", "crlf", "mnemonic-case", "register-case", "function-case", "symbol-case", "radix"];

fn dims_text(d: u32) -> String {
    let v: Vec<&str> = (0..DIM_NAMES.len()).filter(|i| d & (1 << i) != 0).map(|i| DIM_NAMES[i]).collect();
    if v.is_empty() {
        "none".into()
    } else {
        v.join("+")
    }
}

pub fn test(p: &Pair, ev: &mut Ev, devices: &[model::DeviceInfo]) -> Result<(), Violation> {
    ev.eval();
    let (ast, kind) = ast_of(&p.prog, devices);
    let canon = render(&ast, Style::CANON).text;
    let t1 = render(&ast, p.s1).text;
    let t2 = render(&ast, p.s2).text;
    ev.class(&format!("generator:{}", kind));
    let diff = (p.s1.dims ^ p.s2.dims) & ALL_DIMS | ((p.s1.dims & p.s2.dims) & ALL_DIMS);
    let differing = (diff & ALL_DIMS).count_ones();
    if differing >= 3 && diff & TOKEN_DIMS != 0 && t1 != t2 {
        ev.nt(fp(&(&t1, &t2)));
    }
    for i in 0..DIM_NAMES.len() {
        if (p.s1.dims | p.s2.dims) & (1 << i) != 0 {
            ev.class(&format!("dimension:{}", DIM_NAMES[i]));
        }
    }
    let c = build(&canon);
    match &c {
        Outcome::Ok(_) => ev.class("canonical-builds"),
        Outcome::Err(_) => ev.class("canonical-fails"),
        Outcome::Panic(_) => ev.class("canonical-panics"),
    }
    if ev.samples.len() < 2 && c.is_ok() {
        ev.samples.push(json!({"generator": kind, "style_1": dims_text(p.s1.dims), "rendering_1": t1, "style_2": dims_text(p.s2.dims), "rendering_2": t2}));
    }
    for (t, s) in [(&t1, &p.s1), (&t2, &p.s2)] {
        let chk = Check::Same { a: canon.clone(), b: t.clone(), messages: true, allow_both_fail: true };
        chk.eval().map_err(|why| {
            let k = if why.contains("anic") { "panic" } else if why.contains("differ in kind") { "validity-changed" } else { "output-changed" };
            Violation { sig: format!("c14:{}:{}", dims_text(s.dims), k), what: format!("[{} program, style {}] {}", kind, dims_text(s.dims), why), replay: chk.to_json() }
        })?;
    }
    Ok(())
}

pub fn run(ctx: &Ctx) -> Result<Ev, String> {
    let devices = model::model_devices();
    let shards = 32usize;
    let per = (if ctx.thorough { 1_500_000 } else { 120_000 } / shards) as u32;
    let seed = ctx.seed;
    let mut total = par::run_shards("C14", shards, |s| par::prop_shard("C14", seed, s, per, &pair(), |c, ev| test(c, ev, &devices)));
    // limit leg: lines of every size around the tool's own limits (operator chains, parentheses, unary
    // chains of 100..=140 — the tool refuses lines that nest too deep) with and without each kind of
    // trailing comment, blanks and another letter case: on whichever side of a limit a line is, a
    // rewrite that carries no meaning leaves it there
    {
        let mut bases: Vec<(String, String)> = vec![];
        for n in (100usize..=140).chain([250, 256, 257].into_iter()) {
            bases.push((format!("sum-of-{}", n + 1), format!(".dw 1{}", "+1".repeat(n))));
            bases.push((format!("quotient-chain-{}", n), format!(".dw 64{}", "/1".repeat(n))));
            bases.push((format!("parentheses-{}", n), format!("ldi r16, {}1{}", "(".repeat(n), ")".repeat(n))));
            bases.push((format!("unary-chain-{}", n), format!(".db {}1, 2", "-".repeat(n))));
            bases.push((format!("mixed-{}", n), format!(".dw low({}1{}){}", "(".repeat(n / 2), ")".repeat(n / 2), "*1".repeat(n / 2))));
        }
        for (tag, base) in bases {
            for (rw, b) in [
                ("semicolon-comment", format!("{} ; c", base)),
                ("slashes-comment", format!("{} // c", base)),
                ("slashes-comment-unspaced", format!("{}//c", base)),
                ("block-comment", format!("{} /* c */", base)),
                ("block-comment-with-operators", format!("{} /* a+b*c-d/e */", base)),
                ("semicolon-comment-with-operators", format!("{} ; ----- ((( +++ ", base)),
                ("trailing-blanks", format!("{}  \t ", base)),
                ("indented", format!("  \t{}", base)),
                ("upper-case", base.to_uppercase().replace(".DW", ".dw").replace(".DB", ".db")),
                ("crlf", format!("{}\r\n", base)),
                ("comment-line-above", format!("; (((((((((( ---------- \n{}", base)),
            ] {
                total.eval();
                total.class(&format!("limit-leg:{}", rw));
                total.nt(fp(&b));
                let chk = Check::Same { a: base.clone(), b: b.clone(), messages: true, allow_both_fail: true };
                if let Err(why) = chk.eval() {
                    let k = if why.contains("anic") { "panic" } else if why.contains("differ in kind") { "validity-changed" } else { "output-changed" };
                    total.violation(Violation { sig: format!("c14:limit-leg:{}:{}", rw, k), what: format!("[{}] {}", tag, crate::run::truncate(&why, 300)), replay: chk.to_json() });
                    break;
                }
            }
        }
    }
    // radix leg: values at the edges of every width up to and beyond 64 bits, each written in every radix
    // the grammar has — whatever the decimal spelling gives (a value or a failure), the others give too
    {
        let mut values: Vec<u128> = vec![0, 1, 7, 8, 9, 10, 15, 16, 63, 64, 255, 256, 65535, 65536];
        for k in [31u32, 32, 62, 63, 64, 65, 70] {
            for d in [-1i128, 0, 1] {
                values.push(((1i128 << k) + d) as u128);
            }
        }
        for v in values {
            let spellings: Vec<(&str, String)> = vec![
                ("hex-0x", format!("0x{:x}", v)),
                ("hex-0x-upper-digits", format!("0x{:X}", v)),
                ("hex-dollar", format!("${:x}", v)),
                ("hex-padded", format!("0x000{:x}", v)),
                ("binary", format!("0b{:b}", v)),
                ("octal", format!("0{:o}", v)),
                ("decimal-padded-by-nothing", format!("{}", v)),
            ];
            for (ctx_name, template) in [("dq", ".dq {}"), ("low-in-db", ".db low({}), 1"), ("equ-and-mask", ".equ c14_v = {}\n.dw c14_v & 0xffff"), ("ldi-low", "ldi r16, low({})"), ("if", ".if {} > 5\nnop\n.else\nret\n.endif")] {
                let a = template.replace("{}", &v.to_string());
                for (sname, text) in &spellings {
                    if *sname == "octal" && v == 0 {
                        continue;
                    }
                    let b = template.replace("{}", text);
                    total.eval();
                    total.class(&format!("radix-leg:{}", sname));
                    if v >= (1u128 << 63) - 1 {
                        total.nt(fp(&b));
                    }
                    let chk = Check::Same { a: a.clone(), b: b.clone(), messages: true, allow_both_fail: true };
                    if let Err(why) = chk.eval() {
                        let k = if why.contains("anic") { "panic" } else if why.contains("differ in kind") { "validity-changed" } else { "output-changed" };
                        total.violation(Violation { sig: format!("c14:radix-leg:{}:{}:{}", sname, ctx_name, k), what: format!("`{}` against `{}`: {}", b.replace('\n', " | "), a.replace('\n', " | "), why), replay: chk.to_json() });
                    }
                }
            }
        }
    }
    // names tested by .ifdef / .ifndef: whatever the test answers for a label, an .equ, a .set variable
    // or a register alias, it answers the same for every letter case of the reference
    {
        let defs: [(&str, &str); 4] = [("label", "Mixed_Name: nop"), ("equ", ".equ Mixed_Name = 3"), ("set", ".set Mixed_Name = 3"), ("def", ".def Mixed_Name = r20")];
        for (kind, def) in defs {
            for directive in [".ifdef", ".ifndef"] {
                for (place, before) in [("definition-first", true), ("test-first", false)] {
                    let prog = |spelling: &str| -> String {
                        let test = format!("{} {}\n.dw 0x1111\n.else\n.dw 0x2222\n.endif\n", directive, spelling);
                        if before {
                            format!("{}\n{}nop\n", def, test)
                        } else {
                            format!("{}{}\nnop\n", test, def)
                        }
                    };
                    let a = prog("mixed_name");
                    for spelling in ["Mixed_Name", "MIXED_NAME", "mIXED_nAME"] {
                        let b = prog(spelling);
                        total.eval();
                        total.class("ifdef-name-case-leg");
                        total.nt(fp(&b));
                        let chk = Check::Same { a: a.clone(), b: b.clone(), messages: true, allow_both_fail: true };
                        if let Err(why) = chk.eval() {
                            total.violation(Violation { sig: format!("c14:ifdef-name-case:{}:{}:output-changed", kind, place), what: format!("`{}` against the lower-case reference: {}", b.replace('\n', " | "), why), replay: chk.to_json() });
                        }
                    }
                }
            }
        }
    }
    if total.has_violation() {
        return Ok(total);
    }
    let ok = total.classes.get("canonical-builds").copied().unwrap_or(0);
    if ok * 100 < total.evaluations * 95 {
        return Err(format!("generator unsound: only {} of {} canonical renderings build", ok, total.evaluations));
    }
    for d in DIM_NAMES {
        if total.classes.get(&format!("dimension:{}", d)).copied().unwrap_or(0) == 0 {
            return Err(format!("generator degenerate: dimension {} never exercised", d));
        }
    }
    Ok(total)
}

pub fn rule() -> String {
    "proptest: a valid program from the union of the layout (C02), branch-placement (C03, incl. pc-relative operands), expression (C05), data (C06), conditional (C08), macro (C09) and symbol (C10) generators × two independently generated styles; a style switches each of nine dimensions on or off (trailing ; // /* */ comments with hostile text, inserted blank and comment-only lines, runs of spaces/tabs at the permitted positions, LF/CRLF per line, letter case of mnemonics, registers, function names, symbol references, radix and zero padding of each literal) and draws per-token decisions from a seeded stream. Radix leg: values around 2^31, 2^32, 2^62..2^65, 2^70 and small ones, written as 0x / 0X-digits / $ / zero-padded hex, binary and octal in five contexts, against the decimal spelling; names of labels, .equ, .set and .def tested by .ifdef/.ifndef in four letter cases. Oracle: both renderings give exactly the canonical rendering's result (code, eeprom, sizes, ram_filling, message texts) or fail like it. Non-trivial = the two styles together use ≥3 dimensions, at least one token-level (case or radix), and the two texts differ; distinct = distinct pair of texts".into()
}
