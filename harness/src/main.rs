//! avra-verif — property-based testing / fuzzing harness for no111u3/avra-rs (see /verif/DESIGN.md).
//!
//!   avra-verif check <ID> --tier quick|thorough --seed N
//!   avra-verif replay <ID> <file>
//!   avra-verif selftest

use avra_verif::*;
use avra_verif::evidence::{finish, RunInfo, COMMON_ASSUMPTIONS};
use std::time::Instant;

fn usage() -> ! {
    eprintln!("usage: avra-verif check <ID> --tier quick|thorough --seed N | replay <ID> <file> | selftest");
    std::process::exit(2)
}

fn main() {
    run::install_hook();
    par::init_pool();
    let args: Vec<String> = std::env::args().collect();
    if args.len() < 2 {
        usage();
    }
    match args[1].as_str() {
        "worker" => pool::worker_main(false),
        "worker-full" => pool::worker_main(true),
        "fuzzreplay" => {
            // fuzzreplay <target> <artifact file>: re-judge a libFuzzer artifact on the deterministic path
            if args.len() < 4 {
                usage();
            }
            let data = std::fs::read(&args[3]).unwrap_or_default();
            let prop = fuzz::property_of(&args[2]).unwrap_or("C16");
            let r = if args[2] == "raw" {
                // raw inputs are re-run in an isolated worker: stack overflows and hangs are outcomes too
                let src = String::from_utf8_lossy(&data).to_string();
                match props::c16::replay(&serde_json::json!({"kind": "isolated_no_crash", "src": src})) {
                    Some(Ok(())) => Ok(()),
                    Some(Err(e)) => Err((format!("c16:fuzz:{}", e.split(|c: char| !c.is_ascii_alphabetic()).next().unwrap_or("crash").to_lowercase()), e)),
                    None => Ok(()),
                }
            } else {
                fuzz::fuzz_one(&args[2], &data).map_err(|v| (v.sig, v.what))
            };
            match r {
                Ok(()) => println!("fuzzreplay: property {} holds on this input", prop),
                Err((sig, what)) => {
                    let known = evidence::KnownFindings::load();
                    if known.is_open(prop, &sig) {
                        println!("KNOWN-FINDING: property={} {} [sig={}]", prop, known.open[&(prop.to_string(), sig.clone())], sig);
                    } else {
                        println!("VIOLATION property={} replay={}", prop, args[3]);
                        println!("  sig={} {}", sig, run::truncate(&what, 400));
                        std::process::exit(1);
                    }
                }
            }
        }
        "selftest" => match isa::self_test() {
            Ok(n) => {
                println!("selftest ok ({} pinned encodings)", n);
            }
            Err(e) => {
                eprintln!("SELFTEST FAILED: {}", e);
                std::process::exit(2);
            }
        },
        "check" => {
            if args.len() < 3 {
                usage();
            }
            let id = args[2].clone();
            let mut tier = "quick".to_string();
            let mut seed = 0u64;
            let mut i = 3;
            while i < args.len() {
                match args[i].as_str() {
                    "--tier" => {
                        tier = args.get(i + 1).cloned().unwrap_or_default();
                        i += 1;
                    }
                    "--seed" => {
                        seed = args.get(i + 1).and_then(|s| s.parse().ok()).unwrap_or(0);
                        i += 1;
                    }
                    _ => usage(),
                }
                i += 1;
            }
            if tier != "quick" && tier != "thorough" {
                usage();
            }
            let ctx = Ctx { thorough: tier == "thorough", seed, known: evidence::KnownFindings::load() };
            let start = Instant::now();
            let p = match props::lookup(&id) {
                Some(p) => p,
                None => {
                    eprintln!("unknown property {}", id);
                    std::process::exit(2);
                }
            };
            match (p.run)(&ctx) {
                Ok(ev) => {
                    let mut assumptions: Vec<String> = COMMON_ASSUMPTIONS.iter().map(|s| s.to_string()).collect();
                    assumptions.extend((p.assumptions)().into_iter());
                    let info = RunInfo { tier, seed, start, rule: (p.rule)(), exhaustive: (p.exhaustive)(&ctx), assumptions };
                    let code = finish(ev, info);
                    std::process::exit(code);
                }
                Err(e) => {
                    eprintln!("HARNESS-ERROR property={} {}", id, e);
                    std::process::exit(2);
                }
            }
        }
        "replay" => {
            if args.len() < 4 {
                usage();
            }
            let id = &args[2];
            let text = match std::fs::read_to_string(&args[3]) {
                Ok(t) => t,
                Err(e) => {
                    eprintln!("cannot read {}: {}", args[3], e);
                    std::process::exit(2);
                }
            };
            let v: serde_json::Value = match serde_json::from_str(&text) {
                Ok(v) => v,
                Err(e) => {
                    eprintln!("bad replay file: {}", e);
                    std::process::exit(2);
                }
            };
            let case = v.get("case").cloned().unwrap_or(v.clone());
            match props::replay(id, &case) {
                Some(Ok(())) => {
                    println!("replay: property {} holds on this case", id);
                }
                Some(Err(e)) => {
                    println!("VIOLATION property={} replay={}", id, args[3]);
                    println!("  {}", e);
                    std::process::exit(1);
                }
                None => {
                    eprintln!("replay file not understood");
                    std::process::exit(2);
                }
            }
        }
        _ => usage(),
    }
}
