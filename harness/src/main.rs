//! avra-verif — property-based testing / fuzzing harness for no111u3/avra-rs (see /verif/DESIGN.md).
//!
//!   avra-verif check <ID> --tier quick|thorough --seed N
//!   avra-verif replay <ID> <file>
//!   avra-verif selftest

pub mod ast;
pub mod evidence;
pub mod gen;
pub mod ihex;
pub mod model;
pub mod render;
pub mod isa;
pub mod oracle;
pub mod par;
pub mod pool;
pub mod props;
pub mod run;

use evidence::{finish, RunInfo, COMMON_ASSUMPTIONS};
use std::time::Instant;

pub struct Ctx {
    pub thorough: bool,
    pub seed: u64,
    pub known: evidence::KnownFindings,
}

fn usage() -> ! {
    eprintln!("usage: avra-verif check <ID> --tier quick|thorough --seed N | replay <ID> <file> | selftest");
    std::process::exit(2)
}

fn main() {
    run::install_hook();
    par::init_pool();
    let args: Vec<String> = std::env::args().collect();
    if args.len() < 2 {
        usage();
    }
    match args[1].as_str() {
        "worker" => pool::worker_main(false),
        "worker-full" => pool::worker_main(true),
        "selftest" => match isa::self_test() {
            Ok(n) => {
                println!("selftest ok ({} pinned encodings)", n);
            }
            Err(e) => {
                eprintln!("SELFTEST FAILED: {}", e);
                std::process::exit(2);
            }
        },
        "check" => {
            if args.len() < 3 {
                usage();
            }
            let id = args[2].clone();
            let mut tier = "quick".to_string();
            let mut seed = 0u64;
            let mut i = 3;
            while i < args.len() {
                match args[i].as_str() {
                    "--tier" => {
                        tier = args.get(i + 1).cloned().unwrap_or_default();
                        i += 1;
                    }
                    "--seed" => {
                        seed = args.get(i + 1).and_then(|s| s.parse().ok()).unwrap_or(0);
                        i += 1;
                    }
                    _ => usage(),
                }
                i += 1;
            }
            if tier != "quick" && tier != "thorough" {
                usage();
            }
            let ctx = Ctx { thorough: tier == "thorough", seed, known: evidence::KnownFindings::load() };
            let start = Instant::now();
            let p = match props::lookup(&id) {
                Some(p) => p,
                None => {
                    eprintln!("unknown property {}", id);
                    std::process::exit(2);
                }
            };
            match (p.run)(&ctx) {
                Ok(ev) => {
                    let mut assumptions: Vec<String> = COMMON_ASSUMPTIONS.iter().map(|s| s.to_string()).collect();
                    assumptions.extend((p.assumptions)().into_iter());
                    let info = RunInfo { tier, seed, start, rule: (p.rule)(), exhaustive: (p.exhaustive)(&ctx), assumptions };
                    let code = finish(ev, info);
                    std::process::exit(code);
                }
                Err(e) => {
                    eprintln!("HARNESS-ERROR property={} {}", id, e);
                    std::process::exit(2);
                }
            }
        }
        "replay" => {
            if args.len() < 4 {
                usage();
            }
            let id = &args[2];
            let text = match std::fs::read_to_string(&args[3]) {
                Ok(t) => t,
                Err(e) => {
                    eprintln!("cannot read {}: {}", args[3], e);
                    std::process::exit(2);
                }
            };
            let v: serde_json::Value = match serde_json::from_str(&text) {
                Ok(v) => v,
                Err(e) => {
                    eprintln!("bad replay file: {}", e);
                    std::process::exit(2);
                }
            };
            let case = v.get("case").cloned().unwrap_or(v.clone());
            match props::replay(id, &case) {
                Some(Ok(())) => {
                    println!("replay: property {} holds on this case", id);
                }
                Some(Err(e)) => {
                    println!("VIOLATION property={} replay={}", id, args[3]);
                    println!("  {}", e);
                    std::process::exit(1);
                }
                None => {
                    eprintln!("replay file not understood");
                    std::process::exit(2);
                }
            }
        }
        _ => usage(),
    }
}
