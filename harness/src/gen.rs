//! Shared proptest strategies (constructive: no filtering on the hot path).

use crate::ast::*;
use crate::render::{Style, ALL_DIMS};
use proptest::prelude::*;
use proptest::strategy::BoxedStrategy;

/// Index mapping that shrinks monotonically (never `%`).
pub fn idx(i: u16, len: usize) -> usize {
    ((i as usize) * len) >> 16
}

pub const RESERVED: &[&str] = &["pc", "low", "high", "byte2", "byte3", "byte4", "lwrd", "hwrd", "exp2", "log2", "page"];

/// A pool of `n` identifiers that are pairwise distinct after lower-casing, never start with
/// r/x/y/z (register and pointer tokens, DESIGN §4) and are not mnemonics or function names
/// (guaranteed by the `_<index>` suffix).
pub fn names(n: usize) -> impl Strategy<Value = Vec<String>> {
    proptest::collection::vec(("[a-qs-wA-QS-W_][a-zA-Z0-9_]{0,5}", any::<bool>()), n).prop_map(|v| {
        v.into_iter()
            .enumerate()
            .map(|(i, (stem, up))| {
                let s = format!("{}_{}", stem, i);
                if up {
                    s.to_uppercase()
                } else {
                    s
                }
            })
            .collect()
    })
}

/// Re-spell a name in a generated letter case (0 = as is).
pub fn recase(name: &str, how: u8, bits: u32) -> String {
    match how % 4 {
        0 => name.to_string(),
        1 => name.to_uppercase(),
        2 => name.to_lowercase(),
        _ => name
            .chars()
            .enumerate()
            .map(|(i, c)| if (bits >> (i % 32)) & 1 == 1 { c.to_ascii_uppercase() } else { c.to_ascii_lowercase() })
            .collect(),
    }
}

pub fn boundary_values() -> Vec<i64> {
    let mut v = vec![0i64, 1, 2];
    for k in [7u32, 8, 15, 16, 31, 32, 62] {
        v.push((1i64 << k) - 1);
        v.push(1i64 << k);
        v.push((1i64 << k) + 1);
    }
    v.push(i64::MAX);
    v.push(i64::MAX - 1);
    v
}

/// Non-negative literal values, biased small.
pub fn lit_value() -> BoxedStrategy<i64> {
    let b = boundary_values();
    prop_oneof![
        8 => 0i64..16,
        4 => 0i64..256,
        2 => 0i64..65536,
        1 => 0i64..(1i64 << 32),
        1 => (0usize..b.len()).prop_map(move |i| b[i]),
    ]
    .boxed()
}

pub fn chr() -> impl Strategy<Value = u8> {
    // printable ASCII without the quote itself
    (0x20u8..0x7f).prop_map(|c| if c == b'\'' { b'q' } else { c })
}

#[derive(Clone)]
pub struct ExprCtx {
    /// symbols that may be referenced (each evaluates to some integer)
    pub syms: Vec<String>,
    /// allow `pc`
    pub pc: bool,
    /// macro parameters @0..@n-1 usable as atoms
    pub args: u8,
}

pub fn leaf(ctx: &ExprCtx) -> BoxedStrategy<E> {
    let mut alts: Vec<(u32, BoxedStrategy<E>)> = vec![(10, lit_value().prop_map(E::Num).boxed()), (1, chr().prop_map(E::Chr).boxed())];
    if !ctx.syms.is_empty() {
        let syms = ctx.syms.clone();
        alts.push((5, (any::<u16>(), any::<u8>(), any::<u32>()).prop_map(move |(i, how, bits)| E::Sym(recase(&syms[idx(i, syms.len())], how, bits))).boxed()));
    }
    if ctx.pc {
        alts.push((1, Just(E::Pc).boxed()));
    }
    if ctx.args > 0 {
        let n = ctx.args;
        alts.push((4, (0..n).prop_map(E::Arg).boxed()));
    }
    proptest::strategy::Union::new_weighted(alts).boxed()
}

/// Expression trees over all 18 binary, 3 unary operators and the 8 functions.
pub fn expr(ctx: &ExprCtx, depth: u32) -> BoxedStrategy<E> {
    let small = prop_oneof![6 => (0i64..8).prop_map(E::Num), 2 => (0i64..70).prop_map(E::Num), 1 => (60i64..66).prop_map(E::Num)];
    leaf(ctx)
        .prop_recursive(depth, 32, 2, move |inner| {
            let small = small.clone();
            prop_oneof![
                10 => (any::<u16>(), inner.clone(), inner.clone()).prop_map(|(o, a, b)| E::bin(ALL_BINOPS[idx(o, ALL_BINOPS.len())], a, b)),
                // shifts with plausible counts
                2 => (any::<bool>(), inner.clone(), small.clone()).prop_map(|(l, a, b)| E::bin(if l { BinOp::Shl } else { BinOp::Shr }, a, b)),
                2 => (any::<u16>(), inner.clone()).prop_map(|(o, a)| E::un([UnOp::Neg, UnOp::Not, UnOp::Inv][idx(o, 3)], a)),
                2 => (any::<u16>(), inner.clone()).prop_map(|(f, a)| E::Fn(ALL_FUNCS[idx(f, ALL_FUNCS.len() - 1)], Box::new(a))),
                1 => small.clone().prop_map(|a| E::Fn(Func::Exp2, Box::new(a))),
                1 => inner.clone().prop_map(|a| E::Par(Box::new(a))),
            ]
        })
        .boxed()
}

pub fn style() -> impl Strategy<Value = Style> {
    (any::<u64>(), 0u32..=ALL_DIMS).prop_map(|(seed, dims)| Style { seed, dims })
}

/// String contents for .db / .message: no `"`, CR or LF (DESIGN §4); includes hostile ASCII and
/// multi-byte UTF-8.
pub fn string_content() -> BoxedStrategy<String> {
    prop_oneof![
        1 => Just(String::new()),
        6 => "[ -!#-~]{1,12}",
        2 => "[a-z;,'/ *@0-9]{1,10}",
        1 => "[a-zäöüßéλж€]{1,6}",
    ]
    .boxed()
}
