//! Reference model of the assembler over generator ASTs (never over text).
//!
//! Semantics implemented (from the AVR assembler documentation and the property statements):
//! per-segment-type location counters (flash in words, EEPROM / data in bytes, data starting at
//! the device's RAM start), `.org`, item sizes (`.db` padded to a word per line in flash only),
//! label binding, `.equ` (order free), `.set` / `.def` / `.undef` (sequential), conditional
//! selection, macro expansion by AST substitution, checked 64-bit expression evaluation,
//! instruction encoding through `isa::assemble`, device gating and capacities.

use crate::ast::*;
use crate::isa::{self, Core, Opd, Verdict};
use std::collections::{BTreeMap, BTreeSet};

#[derive(Clone, Debug, PartialEq)]
pub struct DeviceInfo {
    pub name: String,
    pub flash_words: u32,
    pub ram_start: u32,
    pub ram_size: u32,
    pub eeprom_size: u32,
    pub flags: Vec<String>,
}

impl DeviceInfo {
    pub fn default_device() -> DeviceInfo {
        // the documented defaults when no device is selected (repository test `check_empty`)
        DeviceInfo { name: String::new(), flash_words: 4194304, ram_start: 0x60, ram_size: 8388608, eeprom_size: 65536, flags: vec![] }
    }
    pub fn core(&self) -> Core {
        if self.flags.iter().any(|f| f == "Avr8l") {
            Core::Avr8l
        } else {
            Core::Full
        }
    }
}

#[derive(Clone, Debug, PartialEq)]
pub struct Image {
    pub code: Vec<u8>,
    pub eeprom: Vec<u8>,
    pub ram_filling: u32,
    pub sizes: [u32; 3],
    /// (kind, text, pre-order line id) in source order
    pub messages: Vec<(MsgKind, String, usize)>,
    pub labels: BTreeMap<String, (Seg, i64)>,
}

#[derive(Clone, Debug, PartialEq)]
pub enum Expect {
    Ok(Image),
    /// the build must fail; `line_id` is the offending line when it is a single identifiable one
    Fail { reason: String, line_id: Option<usize> },
    /// the model does not decide (convention-dependent spelling, outside the modelled subset)
    Unsure(String),
}

#[derive(Clone, Debug, PartialEq)]
pub enum EvalErr {
    /// must fail the build
    Fail(String),
    /// documentation is silent / tolerated either way
    Unsure(String),
}

pub struct Env<'a> {
    pub labels: &'a BTreeMap<String, (Seg, i64)>,
    pub equs: &'a BTreeMap<String, E>,
    pub sets: &'a BTreeMap<String, i64>,
    pub pc: Option<i64>,
    pub depth: usize,
}

fn lc(s: &str) -> String {
    s.to_lowercase()
}

/// Checked evaluation on i64 with the documented operator semantics.
pub fn eval(e: &E, env: &Env) -> Result<i64, EvalErr> {
    use EvalErr::*;
    if env.depth > 64 {
        return Err(Unsure("symbol recursion".into()));
    }
    Ok(match e {
        E::Num(v) => *v,
        E::Chr(c) => *c as i64,
        E::Pc => env.pc.ok_or_else(|| Fail("pc used outside a segment".into()))?,
        E::Arg(n) => return Err(Fail(format!("unexpanded macro parameter @{}", n))),
        E::Big(t) => return Err(Fail(format!("literal {} does not fit 64 bits", t))),
        E::Flag(t) => return Err(Unsure(format!("the value of the .define flag {} is not modelled", t))),
        E::Sym(s) => {
            let k = lc(s);
            if let Some(x) = env.equs.get(&k) {
                let sub = Env { labels: env.labels, equs: env.equs, sets: env.sets, pc: env.pc, depth: env.depth + 1 };
                eval(x, &sub)?
            } else if let Some(v) = env.sets.get(&k) {
                *v
            } else if k == "pc" {
                env.pc.ok_or_else(|| Fail("pc used outside a segment".into()))?
            } else if let Some((_, a)) = env.labels.get(&k) {
                *a
            } else {
                return Err(Fail(format!("undefined symbol {}", s)));
            }
        }
        E::Par(a) => eval(a, env)?,
        E::Un(op, a) => {
            let v = eval(a, env)?;
            match op {
                UnOp::Neg => v.checked_neg().ok_or_else(|| Fail("negation overflow".into()))?,
                UnOp::Not => (v == 0) as i64,
                UnOp::Inv => !v,
            }
        }
        E::Fn(f, a) => {
            let v = eval(a, env)?;
            let u = v as u64;
            match f {
                Func::Low => (u & 0xff) as i64,
                Func::High | Func::Byte2 => ((u >> 8) & 0xff) as i64,
                Func::Byte3 => ((u >> 16) & 0xff) as i64,
                Func::Byte4 => ((u >> 24) & 0xff) as i64,
                Func::Lwrd => (u & 0xffff) as i64,
                Func::Hwrd => ((u >> 16) & 0xffff) as i64,
                Func::Exp2 => {
                    if (0..=62).contains(&v) {
                        1i64 << v
                    } else if v == 63 {
                        return Err(Unsure("exp2(63): documentation silent (i64 min or error)".into()));
                    } else {
                        return Err(Fail("exp2 argument outside 0..63".into()));
                    }
                }
            }
        }
        E::Bin(op, a, b) => {
            let x = eval(a, env)?;
            let y = eval(b, env)?;
            use BinOp::*;
            match op {
                Add => x.checked_add(y).ok_or_else(|| Fail("addition overflow".into()))?,
                Sub => x.checked_sub(y).ok_or_else(|| Fail("subtraction overflow".into()))?,
                Mul => x.checked_mul(y).ok_or_else(|| Fail("multiplication overflow".into()))?,
                Div => {
                    if y == 0 {
                        return Err(Fail("division by zero".into()));
                    }
                    x.checked_div(y).ok_or_else(|| Fail("division overflow".into()))?
                }
                Rem => {
                    if y == 0 {
                        return Err(Fail("remainder by zero".into()));
                    }
                    x.checked_rem(y).ok_or_else(|| Fail("remainder overflow".into()))?
                }
                Shl => {
                    if (0..=63).contains(&y) {
                        ((x as u64) << y) as i64
                    } else {
                        return Err(Fail("shift count outside 0..63".into()));
                    }
                }
                Shr => {
                    if (0..=63).contains(&y) {
                        if x < 0 && y > 0 {
                            return Err(Unsure(">> of a negative value: arithmetic or logical".into()));
                        }
                        x >> y
                    } else {
                        return Err(Fail("shift count outside 0..63".into()));
                    }
                }
                Lt => (x < y) as i64,
                Le => (x <= y) as i64,
                Gt => (x > y) as i64,
                Ge => (x >= y) as i64,
                Eq => (x == y) as i64,
                Ne => (x != y) as i64,
                And => x & y,
                Xor => x ^ y,
                Or => x | y,
                LAnd => (x != 0 && y != 0) as i64,
                LOr => (x != 0 || y != 0) as i64,
            }
        }
    })
}

/// Evaluate a closed expression (no symbols).
pub fn eval_closed(e: &E) -> Result<i64, EvalErr> {
    let l = BTreeMap::new();
    let q = BTreeMap::new();
    let s = BTreeMap::new();
    eval(e, &Env { labels: &l, equs: &q, sets: &s, pc: None, depth: 0 })
}

/// A primitive line after conditional selection and macro expansion.
#[derive(Clone, Debug)]
pub struct Flat {
    pub id: usize,
    pub label: Option<String>,
    pub st: Option<St>,
    /// true when the line comes out of a macro expansion (messages there are appended late)
    pub from_macro: bool,
}

pub struct Flattened {
    pub flats: Vec<Flat>,
    pub equs: BTreeMap<String, E>,
    pub device: Option<String>,
    pub fail: Option<(String, Option<usize>)>,
    pub unsure: Option<String>,
    pub stats: FlatStats,
}

#[derive(Default, Clone, Debug)]
pub struct FlatStats {
    pub elif_after_taken: bool,
    pub elif_count: usize,
    pub nested_in_taken_then_else: bool,
    pub macro_calls: usize,
    pub nested_calls: usize,
    pub selected_else: usize,
    pub conds: usize,
}

struct Flattener<'a> {
    out: Vec<Flat>,
    equs: BTreeMap<String, E>,
    defines: BTreeSet<String>,
    macros: BTreeMap<String, Vec<Ln>>,
    device: Option<String>,
    fail: Option<(String, Option<usize>)>,
    unsure: Option<String>,
    exited: bool,
    next_id: usize,
    stats: FlatStats,
    _p: std::marker::PhantomData<&'a ()>,
}

impl<'a> Flattener<'a> {
    fn fail(&mut self, r: String, id: Option<usize>) {
        if self.fail.is_none() {
            self.fail = Some((r, id));
        }
    }

    /// conditions are evaluated while reading the file: only `.equ`s seen so far are visible
    fn cond(&mut self, c: &Cond, id: usize) -> bool {
        match c {
            Cond::Ifdef(n) => self.defines.contains(n),
            Cond::Ifndef(n) => !self.defines.contains(n),
            Cond::Expr(e) => {
                let l = BTreeMap::new();
                let s = BTreeMap::new();
                let env = Env { labels: &l, equs: &self.equs, sets: &s, pc: None, depth: 0 };
                match eval(e, &env) {
                    Ok(v) => v != 0,
                    Err(EvalErr::Fail(r)) => {
                        self.fail(format!("condition: {}", r), Some(id));
                        false
                    }
                    Err(EvalErr::Unsure(r)) => {
                        self.unsure = Some(r);
                        false
                    }
                }
            }
        }
    }

    fn walk(&mut self, lines: &[Ln], skipping: bool) {
        for l in lines {
            let id = self.next_id;
            self.next_id += 1;
            if skipping || self.exited || self.fail.is_some() {
                // still advance ids over nested bodies
                match &l.st {
                    Some(St::If(arms, els)) => {
                        for (_, b) in arms {
                            self.next_id += count_ids(b);
                        }
                        if let Some(b) = els {
                            self.next_id += count_ids(b);
                        }
                    }
                    Some(St::MacroDef(_, b)) => self.next_id += count_ids(b),
                    _ => {}
                }
                continue;
            }
            match &l.st {
                Some(St::If(arms, els)) => {
                    self.stats.conds += 1;
                    if l.label.is_some() {
                        self.out.push(Flat { id, label: l.label.clone(), st: None, from_macro: false });
                    }
                    let mut taken = false;
                    for (i, (c, body)) in arms.iter().enumerate() {
                        if i > 0 {
                            self.stats.elif_count += 1;
                            if taken {
                                self.stats.elif_after_taken = true;
                            }
                        }
                        let sel = if taken { false } else { self.cond(c, id) };
                        if self.fail.is_some() {
                            // keep ids consistent
                            self.next_id += count_ids(body);
                            continue;
                        }
                        if sel {
                            taken = true;
                            let has_nested = body.iter().any(|x| matches!(x.st, Some(St::If(..))));
                            if has_nested && (i + 1 < arms.len() || els.is_some()) {
                                self.stats.nested_in_taken_then_else = true;
                            }
                            self.walk(body, false);
                        } else {
                            self.walk(body, true);
                        }
                    }
                    if let Some(b) = els {
                        if !taken {
                            self.stats.selected_else += 1;
                        }
                        self.walk(b, taken);
                    }
                }
                Some(St::MacroDef(name, body)) => {
                    self.macros.insert(lc(name), body.clone());
                    self.next_id += count_ids(body);
                }
                Some(St::Equ(n, e)) => {
                    if l.label.is_some() {
                        self.out.push(Flat { id, label: l.label.clone(), st: None, from_macro: false });
                    }
                    self.equs.insert(lc(n), e.clone());
                }
                Some(St::Define(n)) => {
                    self.defines.insert(n.clone());
                }
                Some(St::Device(d)) => {
                    if self.device.is_some() {
                        self.fail("second .device".into(), Some(id));
                    } else {
                        self.device = Some(d.clone());
                    }
                }
                Some(St::Exit) => {
                    self.exited = true;
                }
                Some(St::Msg(MsgKind::Error, t)) => {
                    self.out.push(Flat { id, label: l.label.clone(), st: Some(St::Msg(MsgKind::Error, t.clone())), from_macro: false });
                    self.fail(format!(".error {}", t), Some(id));
                }
                Some(St::Raw(t)) => {
                    self.fail(format!("raw text assembled: {}", t), Some(id));
                }
                _ => self.out.push(Flat { id, label: l.label.clone(), st: l.st.clone(), from_macro: false }),
            }
        }
    }
}

pub fn flatten(prog: &[Ln]) -> Flattened {
    let mut f = Flattener {
        out: vec![],
        equs: BTreeMap::new(),
        defines: BTreeSet::new(),
        macros: BTreeMap::new(),
        device: None,
        fail: None,
        unsure: None,
        exited: false,
        next_id: 0,
        stats: FlatStats::default(),
        _p: std::marker::PhantomData,
    };
    f.walk(prog, false);
    // macro expansion happens after the whole source has been read (calls may precede definitions)
    let mut expanded: Vec<Flat> = vec![];
    let flats = std::mem::take(&mut f.out);
    for fl in flats {
        if let Some(St::Call(name, args)) = &fl.st {
            f.stats.macro_calls += 1;
            if fl.label.is_some() {
                expanded.push(Flat { id: fl.id, label: fl.label.clone(), st: None, from_macro: false });
            }
            expand_call(&mut f, name, args, fl.id, 0, &mut expanded);
        } else {
            expanded.push(fl);
        }
    }
    Flattened { flats: expanded, equs: f.equs, device: f.device, fail: f.fail, unsure: f.unsure, stats: f.stats }
}

fn subst_label(l: &str, args: &[Opnd]) -> Result<String, String> {
    let mut out = l.to_string();
    for n in (0..10).rev() {
        let pat = format!("@{}", n);
        if out.contains(&pat) {
            match args.get(n) {
                Some(Opnd::Ex(E::Num(v))) => out = out.replace(&pat, &v.to_string()),
                Some(Opnd::Ex(E::Sym(s))) => out = out.replace(&pat, s),
                None => {}
                other => return Err(format!("label parameter @{} needs a plain number or name, got {:?}", n, other)),
            }
        }
    }
    Ok(out)
}

fn subst_lines(body: &[Ln], args: &[Opnd]) -> Result<Vec<Ln>, String> {
    let mut out = vec![];
    for l in body {
        let label = match &l.label {
            Some(x) => Some(subst_label(x, args)?),
            None => None,
        };
        let st = match &l.st {
            None => None,
            Some(s) => Some(match s {
                St::Ins(m, ops) => St::Ins(m.clone(), ops.iter().map(|o| o.subst(args)).collect::<Result<_, _>>()?),
                St::Call(m, ops) => St::Call(m.clone(), ops.iter().map(|o| o.subst(args)).collect::<Result<_, _>>()?),
                St::Data(k, items) => St::Data(
                    *k,
                    items
                        .iter()
                        .map(|i| match i {
                            DItem::Ex(e) => e.subst(args).map(DItem::Ex),
                            DItem::Str(s) => Ok(DItem::Str(s.clone())),
                        })
                        .collect::<Result<_, _>>()?,
                ),
                St::Byte(e) => St::Byte(e.subst(args)?),
                St::Org(e) => St::Org(e.subst(args)?),
                St::Equ(n, e) => St::Equ(n.clone(), e.subst(args)?),
                St::Set(n, e) => St::Set(n.clone(), e.subst(args)?),
                St::If(arms, els) => St::If(
                    arms.iter()
                        .map(|(c, b)| {
                            let flag = |n: &String| -> Result<String, String> {
                                // `.ifdef @n`: the argument must be a plain name
                                match n.strip_prefix('@').and_then(|d| d.parse::<usize>().ok()) {
                                    Some(i) => match args.get(i) {
                                        Some(Opnd::Ex(E::Sym(s))) | Some(Opnd::Ex(E::Flag(s))) => Ok(s.clone()),
                                        None => Ok(n.clone()),
                                        other => Err(format!("flag parameter {} needs a plain name, got {:?}", n, other)),
                                    },
                                    None => Ok(n.clone()),
                                }
                            };
                            let c2 = match c {
                                Cond::Expr(e) => Cond::Expr(e.subst(args)?),
                                Cond::Ifdef(n) => Cond::Ifdef(flag(n)?),
                                Cond::Ifndef(n) => Cond::Ifndef(flag(n)?),
                            };
                            Ok((c2, subst_lines(b, args)?))
                        })
                        .collect::<Result<_, String>>()?,
                    match els {
                        Some(b) => Some(subst_lines(b, args)?),
                        None => None,
                    },
                ),
                other => other.clone(),
            }),
        };
        out.push(Ln { label, st });
    }
    Ok(out)
}

fn expand_call(f: &mut Flattener, name: &str, args: &[Opnd], id: usize, depth: usize, out: &mut Vec<Flat>) {
    if depth > 48 {
        f.unsure = Some("macro recursion".into());
        return;
    }
    let body = match f.macros.get(&lc(name)) {
        Some(b) => b.clone(),
        None => {
            f.fail(format!("call of undefined macro {}", name), Some(id));
            return;
        }
    };
    let lines = match subst_lines(&body, args) {
        Ok(l) => l,
        Err(r) => {
            f.fail(r, Some(id));
            return;
        }
    };
    // conditionals inside the body are evaluated at expansion time; reuse the walker on a scratch
    let saved_out = std::mem::take(&mut f.out);
    let saved_id = f.next_id;
    let saved_exit = f.exited;
    f.walk(&lines, false);
    f.exited = saved_exit;
    f.next_id = saved_id;
    let produced = std::mem::replace(&mut f.out, saved_out);
    for mut p in produced {
        p.id = id; // everything a call produces is attributed to the calling line
        p.from_macro = true;
        if let Some(St::Call(n2, a2)) = &p.st {
            f.stats.nested_calls += 1;
            if p.label.is_some() {
                out.push(Flat { id, label: p.label.clone(), st: None, from_macro: true });
            }
            expand_call(f, n2, a2, id, depth + 1, out);
        } else {
            out.push(p);
        }
    }
}

fn opnd_eval(o: &Opnd, env: &Env, defs: &BTreeMap<String, u8>) -> Result<Opd, EvalErr> {
    Ok(match o {
        Opnd::Reg(r) => Opd::R(*r),
        Opnd::Alias(a) => match defs.get(&lc(a)) {
            Some(r) => Opd::R(*r),
            None => return Err(EvalErr::Fail(format!("register alias {} not defined here", a))),
        },
        Opnd::Ptr(p, m) => Opd::P(*p, *m),
        Opnd::PtrQ(p, e) => Opd::Q(*p, eval(e, env)?),
        Opnd::Ex(e) => Opd::K(eval(e, env)?),
        Opnd::Arg(n) => return Err(EvalErr::Fail(format!("unexpanded macro parameter @{}", n))),
    })
}

pub fn data_range(k: DKind) -> (i64, i64) {
    match k {
        DKind::Db => (-128, 255),
        DKind::Dw => (-32768, 65535),
        DKind::Dd => (-(1i64 << 31), (1i64 << 32) - 1),
        DKind::Dq => (i64::MIN, i64::MAX),
    }
}

fn item_len(k: DKind, items: &[DItem]) -> Result<usize, String> {
    let mut n = 0;
    for it in items {
        match it {
            DItem::Ex(_) => n += k.width(),
            DItem::Str(s) => {
                if k != DKind::Db {
                    return Err("string in a word directive".into());
                }
                n += s.as_bytes().len()
            }
        }
    }
    Ok(n)
}

pub struct ModelOpts {
    /// device table as read from the tool (names, capacities, flags)
    pub devices: Vec<DeviceInfo>,
}

/// Full reference assembly of a program.
pub fn assemble(prog: &[Ln], opts: &ModelOpts) -> (Expect, FlatStats) {
    let fl = flatten(prog);
    let stats = fl.stats.clone();
    if let Some((r, id)) = fl.fail.clone() {
        return (Expect::Fail { reason: r, line_id: id }, stats);
    }
    if let Some(r) = fl.unsure.clone() {
        return (Expect::Unsure(r), stats);
    }
    let dev = match &fl.device {
        None => DeviceInfo::default_device(),
        Some(n) => match opts.devices.iter().find(|d| &d.name == n) {
            Some(d) => d.clone(),
            None => return (Expect::Fail { reason: format!("unknown device {}", n), line_id: None }, stats),
        },
    };
    (assemble_flat(&fl, &dev), stats)
}

pub fn assemble_flat(fl: &Flattened, dev: &DeviceInfo) -> Expect {
    let core = dev.core();
    // ---- pass 1: layout, label binding
    let mut labels: BTreeMap<String, (Seg, i64)> = BTreeMap::new();
    let mut seg = Seg::Code;
    let mut ctr: BTreeMap<Seg, i64> = BTreeMap::new();
    ctr.insert(Seg::Code, 0);
    ctr.insert(Seg::Data, dev.ram_start as i64);
    ctr.insert(Seg::Eeprom, 0);
    let empty_sets = BTreeMap::new();
    let empty_labels = BTreeMap::new();
    for f in &fl.flats {
        if let Some(l) = &f.label {
            let k = lc(l);
            if k.contains('@') {
                return Expect::Fail { reason: format!("label {} with an unexpanded macro parameter", l), line_id: Some(f.id) };
            }
            if labels.contains_key(&k) {
                return Expect::Fail { reason: format!("duplicate label {}", l), line_id: Some(f.id) };
            }
            labels.insert(k, (seg, ctr[&seg]));
        }
        let c = *ctr.get(&seg).unwrap();
        match &f.st {
            None => {}
            Some(St::Seg(s)) => seg = *s,
            Some(St::Org(e)) => {
                // .org operands may only use what is known while reading: literals and earlier .equs
                let env = Env { labels: &empty_labels, equs: &fl.equs, sets: &empty_sets, pc: None, depth: 0 };
                match eval(e, &env) {
                    Ok(v) => {
                        if v < c {
                            return Expect::Fail { reason: format!(".org {} below the current position {}", v, c), line_id: Some(f.id) };
                        }
                        if v > (1 << 26) {
                            return Expect::Unsure(".org far beyond any device".into());
                        }
                        ctr.insert(seg, v);
                    }
                    Err(EvalErr::Fail(r)) => return Expect::Fail { reason: r, line_id: Some(f.id) },
                    Err(EvalErr::Unsure(r)) => return Expect::Unsure(r),
                }
            }
            Some(St::Ins(m, _)) => {
                if seg != Seg::Code {
                    return Expect::Fail { reason: "instruction outside the code segment".into(), line_id: Some(f.id) };
                }
                ctr.insert(seg, c + isa::length(m, core) as i64);
            }
            Some(St::Data(k, items)) => {
                let n = match item_len(*k, items) {
                    Ok(n) => n,
                    Err(r) => return Expect::Fail { reason: r, line_id: Some(f.id) },
                };
                match seg {
                    Seg::Code => {
                        ctr.insert(seg, c + ((n + 1) / 2) as i64);
                    }
                    Seg::Eeprom => {
                        ctr.insert(seg, c + n as i64);
                    }
                    Seg::Data => return Expect::Fail { reason: "data directive in the data segment".into(), line_id: Some(f.id) },
                }
            }
            Some(St::Byte(e)) => {
                let env = Env { labels: &empty_labels, equs: &fl.equs, sets: &empty_sets, pc: None, depth: 0 };
                let n = match eval(e, &env) {
                    Ok(v) => v,
                    Err(EvalErr::Fail(r)) => return Expect::Fail { reason: r, line_id: Some(f.id) },
                    Err(EvalErr::Unsure(r)) => return Expect::Unsure(r),
                };
                if n < 0 || n > (1 << 26) {
                    return Expect::Unsure(".byte with a negative or absurd count".into());
                }
                match seg {
                    Seg::Code => return Expect::Fail { reason: ".byte in the code segment".into(), line_id: Some(f.id) },
                    _ => {
                        ctr.insert(seg, c + n);
                    }
                }
            }
            Some(_) => {}
        }
    }
    let ram_end = ctr[&Seg::Data];
    // ---- pass 2: emission
    let mut code: Vec<u8> = vec![];
    let mut eeprom: Vec<u8> = vec![];
    let mut sets: BTreeMap<String, i64> = BTreeMap::new();
    let mut defs: BTreeMap<String, u8> = BTreeMap::new();
    let mut messages = vec![];
    let mut late_messages = vec![];
    seg = Seg::Code;
    let mut pos: BTreeMap<Seg, i64> = BTreeMap::new();
    pos.insert(Seg::Code, 0);
    pos.insert(Seg::Data, dev.ram_start as i64);
    pos.insert(Seg::Eeprom, 0);
    for f in &fl.flats {
        let pc = pos[&seg];
        let env = Env { labels: &labels, equs: &fl.equs, sets: &sets, pc: Some(pc), depth: 0 };
        macro_rules! ev {
            ($e:expr) => {
                match $e {
                    Ok(v) => v,
                    Err(EvalErr::Fail(r)) => return Expect::Fail { reason: r, line_id: Some(f.id) },
                    Err(EvalErr::Unsure(r)) => return Expect::Unsure(r),
                }
            };
        }
        match &f.st {
            None => {}
            Some(St::Seg(s)) => seg = *s,
            Some(St::Org(e)) => {
                let l0 = BTreeMap::new();
                let s0 = BTreeMap::new();
                let v = ev!(eval(e, &Env { labels: &l0, equs: &fl.equs, sets: &s0, pc: None, depth: 0 }));
                match seg {
                    Seg::Code => code.resize((v * 2) as usize, 0),
                    Seg::Eeprom => eeprom.resize(v as usize, 0),
                    Seg::Data => {}
                }
                pos.insert(seg, v);
            }
            Some(St::Ins(m, ops)) => {
                let mut o2 = vec![];
                for o in ops {
                    o2.push(ev!(opnd_eval(o, &env, &defs)));
                }
                if isa::gate(&dev.flags, m, &o2) {
                    return Expect::Fail { reason: format!("{} not available on {}", m, dev.name), line_id: Some(f.id) };
                }
                match isa::assemble(m, &o2, core, pc) {
                    Verdict::Legal(w) => {
                        for x in &w {
                            code.push((*x & 0xff) as u8);
                            code.push((*x >> 8) as u8);
                        }
                        pos.insert(seg, pc + w.len() as i64);
                    }
                    Verdict::Illegal => return Expect::Fail { reason: format!("{} {:?} cannot be encoded", m, o2), line_id: Some(f.id) },
                    Verdict::Either(_) => return Expect::Unsure(format!("{} {:?}: convention-dependent", m, o2)),
                }
            }
            Some(St::Data(k, items)) => {
                let mut bytes = vec![];
                let (lo, hi) = data_range(*k);
                for it in items {
                    match it {
                        DItem::Str(s) => bytes.extend_from_slice(s.as_bytes()),
                        DItem::Ex(e) => {
                            let v = ev!(eval(e, &env));
                            if v < lo || v > hi {
                                return Expect::Fail { reason: format!("{} does not fit {}", v, k.text()), line_id: Some(f.id) };
                            }
                            bytes.extend_from_slice(&v.to_le_bytes()[..k.width()]);
                        }
                    }
                }
                match seg {
                    Seg::Code => {
                        if bytes.len() % 2 == 1 {
                            bytes.push(0);
                        }
                        pos.insert(seg, pc + (bytes.len() / 2) as i64);
                        code.extend(bytes);
                    }
                    Seg::Eeprom => {
                        pos.insert(seg, pc + bytes.len() as i64);
                        eeprom.extend(bytes);
                    }
                    Seg::Data => unreachable!(),
                }
            }
            Some(St::Byte(e)) => {
                let l0 = BTreeMap::new();
                let s0 = BTreeMap::new();
                let n = ev!(eval(e, &Env { labels: &l0, equs: &fl.equs, sets: &s0, pc: None, depth: 0 }));
                if seg == Seg::Eeprom {
                    eeprom.resize(eeprom.len() + n as usize, 0);
                }
                pos.insert(seg, pc + n);
            }
            Some(St::Set(n, e)) => {
                let v = ev!(eval(e, &env));
                sets.insert(lc(n), v);
            }
            Some(St::Def(n, r)) => {
                defs.insert(lc(n), *r);
            }
            Some(St::Undef(n)) => {
                if defs.remove(&lc(n)).is_none() {
                    return Expect::Fail { reason: format!(".undef of {} which is not defined", n), line_id: Some(f.id) };
                }
            }
            Some(St::Msg(k, t)) => {
                if f.from_macro {
                    late_messages.push((*k, t.clone(), f.id));
                } else {
                    messages.push((*k, t.clone(), f.id));
                }
            }
            Some(other) => return Expect::Unsure(format!("statement outside the modelled subset: {:?}", other)),
        }
    }
    let _ = late_messages; // messages inside macro bodies are not generated (their position is unspecified)
    let ram_filling = (ram_end - dev.ram_start as i64) as u32;
    if code.len() as u64 > dev.flash_words as u64 * 2 {
        return Expect::Fail { reason: "flash capacity exceeded".into(), line_id: None };
    }
    if eeprom.len() as u64 > dev.eeprom_size as u64 {
        return Expect::Fail { reason: "EEPROM capacity exceeded".into(), line_id: None };
    }
    if ram_filling as u64 > dev.ram_size as u64 {
        return Expect::Fail { reason: "RAM capacity exceeded".into(), line_id: None };
    }
    Expect::Ok(Image { code, eeprom, ram_filling, sizes: [dev.flash_words, dev.eeprom_size, dev.ram_size], messages, labels })
}

pub fn model_devices() -> Vec<DeviceInfo> {
    crate::props::c13::devices()
        .into_iter()
        .map(|d| DeviceInfo { name: d.name, flash_words: d.flash_words, ram_start: d.ram_start, ram_size: d.ram_size, eeprom_size: d.eeprom_size, flags: d.flags })
        .collect()
}

#[derive(Clone, Copy, PartialEq, Eq, Debug)]
pub enum ResolveMode {
    /// unselected lines and the conditional directives themselves become blank lines
    Blank,
    /// they are removed
    Delete,
}

/// The program with its conditionals resolved the way the documentation defines (first arm whose
/// condition holds, else `.else`).  Used for the metamorphic "unselected lines deleted" relation.
pub fn resolve_conditionals(prog: &[Ln], mode: ResolveMode) -> Result<Vec<Ln>, String> {
    struct R {
        equs: BTreeMap<String, E>,
        defines: BTreeSet<String>,
        mode: ResolveMode,
        exited: bool,
    }
    fn phys(lines: &[Ln]) -> usize {
        let mut n = 0;
        for l in lines {
            match &l.st {
                Some(St::If(arms, els)) => {
                    for (_, b) in arms {
                        n += 1 + phys(b);
                    }
                    if let Some(b) = els {
                        n += 1 + phys(b);
                    }
                    n += 1;
                }
                Some(St::MacroDef(_, b)) => n += 2 + phys(b),
                _ => n += 1,
            }
        }
        n
    }
    fn blanks(n: usize, out: &mut Vec<Ln>, mode: ResolveMode) {
        if mode == ResolveMode::Blank {
            for _ in 0..n {
                out.push(Ln::blank());
            }
        }
    }
    fn walk(r: &mut R, lines: &[Ln], out: &mut Vec<Ln>) -> Result<(), String> {
        for l in lines {
            if r.exited {
                blanks(phys(std::slice::from_ref(l)), out, r.mode);
                continue;
            }
            match &l.st {
                Some(St::If(arms, els)) => {
                    let mut taken = false;
                    for (c, body) in arms {
                        blanks(1, out, r.mode);
                        let sel = if taken {
                            false
                        } else {
                            match c {
                                Cond::Ifdef(n) => r.defines.contains(n),
                                Cond::Ifndef(n) => !r.defines.contains(n),
                                Cond::Expr(e) => {
                                    let l0 = BTreeMap::new();
                                    let s0 = BTreeMap::new();
                                    match eval(e, &Env { labels: &l0, equs: &r.equs, sets: &s0, pc: None, depth: 0 }) {
                                        Ok(v) => v != 0,
                                        Err(x) => return Err(format!("condition not evaluable: {:?}", x)),
                                    }
                                }
                            }
                        };
                        if sel {
                            taken = true;
                            walk(r, body, out)?;
                        } else {
                            blanks(phys(body), out, r.mode);
                        }
                    }
                    if let Some(b) = els {
                        blanks(1, out, r.mode);
                        if taken {
                            blanks(phys(b), out, r.mode);
                        } else {
                            walk(r, b, out)?;
                        }
                    }
                    blanks(1, out, r.mode);
                }
                Some(St::Equ(n, e)) => {
                    r.equs.insert(n.to_lowercase(), e.clone());
                    out.push(l.clone());
                }
                Some(St::Define(n)) => {
                    r.defines.insert(n.clone());
                    out.push(l.clone());
                }
                Some(St::Exit) => {
                    r.exited = true;
                    out.push(l.clone());
                }
                _ => out.push(l.clone()),
            }
        }
        Ok(())
    }
    let mut r = R { equs: BTreeMap::new(), defines: BTreeSet::new(), mode, exited: false };
    let mut out = vec![];
    walk(&mut r, prog, &mut out)?;
    Ok(out)
}
