//! Executable oracle cases.  Every property reduces its generated cases to `Check` values; a
//! violated `Check` is what gets written into the replay file, and `./check replay` simply
//! deserialises it and evaluates it again — no generator involved.

use crate::run::{build, hex, Outcome};
use serde_json::{json, Value};

#[derive(Clone, Debug, PartialEq)]
pub enum Check {
    /// The build must succeed and the stated parts of the result must be exactly these.
    Image {
        src: String,
        code: Option<Vec<u8>>,
        eeprom: Option<Vec<u8>>,
        ram_filling: Option<u32>,
        sizes: Option<[u32; 3]>,
        /// each entry must be contained in the message with the same index; count must match
        messages: Option<Vec<String>>,
    },
    /// The build must return an error value (a panic is not an error value).
    MustFail { src: String, token: Option<String> },
    /// Either an error value, or exactly this flash image (convention-dependent spelling).
    FailOrImage { src: String, code: Vec<u8> },
    /// Both sources must build to equal results (code, eeprom, sizes, ram_filling and, when
    /// `messages` is set, message texts with line numbers removed) or both must fail.
    Same { a: String, b: String, messages: bool, allow_both_fail: bool },
    /// Must return Ok or Err, never panic.
    NoPanic { src: String },
    /// Must build (any image).
    MustBuild { src: String },
}

fn unhex(s: &str) -> Vec<u8> {
    (0..s.len() / 2).map(|i| u8::from_str_radix(&s[2 * i..2 * i + 2], 16).unwrap_or(0)).collect()
}
fn fullhex(b: &[u8]) -> String {
    b.iter().map(|x| format!("{:02x}", x)).collect()
}

/// message text without its trailing " in line: N"
pub fn strip_line(m: &str) -> String {
    match m.rfind(" in line: ") {
        Some(i) => m[..i].to_string(),
        None => m.to_string(),
    }
}

fn diff_bytes(name: &str, got: &[u8], want: &[u8]) -> String {
    let n = got.len().min(want.len());
    let first = (0..n).find(|&i| got[i] != want[i]).unwrap_or(n);
    let lo = first.saturating_sub(4);
    format!(
        "{} differs at byte {} (len got {} want {}): got …{} want …{}",
        name,
        first,
        got.len(),
        want.len(),
        hex(&got[lo.min(got.len())..], 16),
        hex(&want[lo.min(want.len())..], 16)
    )
}

impl Check {
    pub fn image_code(src: String, code: Vec<u8>) -> Check {
        Check::Image { src, code: Some(code), eeprom: None, ram_filling: None, sizes: None, messages: None }
    }

    /// Ok(()) when the case holds, Err(description) when it is violated.
    pub fn eval(&self) -> Result<(), String> {
        match self {
            Check::Image { src, code, eeprom, ram_filling, sizes, messages } => match build(src) {
                Outcome::Ok(b) => {
                    if let Some(c) = code {
                        if &b.code != c {
                            return Err(diff_bytes("code", &b.code, c));
                        }
                    }
                    if let Some(e) = eeprom {
                        if &b.eeprom != e {
                            return Err(diff_bytes("eeprom", &b.eeprom, e));
                        }
                    }
                    if let Some(r) = ram_filling {
                        if b.ram_filling != *r {
                            return Err(format!("ram_filling got {} want {}", b.ram_filling, r));
                        }
                    }
                    if let Some(s) = sizes {
                        let got = [b.flash_size, b.eeprom_size, b.ram_size];
                        if &got != s {
                            return Err(format!("sizes (flash,eeprom,ram) got {:?} want {:?}", got, s));
                        }
                    }
                    if let Some(ms) = messages {
                        if b.messages.len() != ms.len() {
                            return Err(format!("messages got {:?} want (substrings) {:?}", b.messages, ms));
                        }
                        for (g, w) in b.messages.iter().zip(ms) {
                            if !g.contains(w.as_str()) {
                                return Err(format!("message {:?} does not contain {:?}; all: {:?}", g, w, b.messages));
                            }
                        }
                    }
                    Ok(())
                }
                o => Err(format!("expected a successful build, got {}", o.brief())),
            },
            Check::MustFail { src, token } => match build(src) {
                Outcome::Err(e) => {
                    if let Some(t) = token {
                        if !has_token(&e, t) {
                            return Err(format!("error text does not name {:?}: {}", t, e));
                        }
                    }
                    Ok(())
                }
                o => Err(format!("expected an error value, got {}", o.brief())),
            },
            Check::FailOrImage { src, code } => match build(src) {
                Outcome::Err(_) => Ok(()),
                Outcome::Ok(b) => {
                    if &b.code == code {
                        Ok(())
                    } else {
                        Err(format!("accepted but mis-encoded: {}", diff_bytes("code", &b.code, code)))
                    }
                }
                o => Err(format!("expected an error value or the natural encoding, got {}", o.brief())),
            },
            Check::Same { a, b, messages, allow_both_fail } => {
                let ra = build(a);
                let rb = build(b);
                match (&ra, &rb) {
                    (Outcome::Ok(x), Outcome::Ok(y)) => {
                        if x.code != y.code {
                            return Err(diff_bytes("code(a vs b)", &x.code, &y.code));
                        }
                        if x.eeprom != y.eeprom {
                            return Err(diff_bytes("eeprom(a vs b)", &x.eeprom, &y.eeprom));
                        }
                        if (x.flash_size, x.eeprom_size, x.ram_size, x.ram_filling)
                            != (y.flash_size, y.eeprom_size, y.ram_size, y.ram_filling)
                        {
                            return Err(format!(
                                "sizes differ: a=({},{},{},{}) b=({},{},{},{})",
                                x.flash_size, x.eeprom_size, x.ram_size, x.ram_filling, y.flash_size, y.eeprom_size, y.ram_size, y.ram_filling
                            ));
                        }
                        if *messages {
                            let ma: Vec<String> = x.messages.iter().map(|m| strip_line(m)).collect();
                            let mb: Vec<String> = y.messages.iter().map(|m| strip_line(m)).collect();
                            if ma != mb {
                                return Err(format!("messages differ: a={:?} b={:?}", ma, mb));
                            }
                        }
                        Ok(())
                    }
                    (Outcome::Err(_), Outcome::Err(_)) if *allow_both_fail => Ok(()),
                    _ => Err(format!("results differ in kind: a={} b={}", ra.brief(), rb.brief())),
                }
            }
            Check::NoPanic { src } => match build(src) {
                Outcome::Panic(p) => Err(format!("panicked: {}", p)),
                _ => Ok(()),
            },
            Check::MustBuild { src } => match build(src) {
                Outcome::Ok(_) => Ok(()),
                o => Err(format!("expected a successful build, got {}", o.brief())),
            },
        }
    }

    pub fn to_json(&self) -> Value {
        match self {
            Check::Image { src, code, eeprom, ram_filling, sizes, messages } => json!({
                "kind": "image", "src": src,
                "code": code.as_ref().map(|c| fullhex(c)),
                "eeprom": eeprom.as_ref().map(|c| fullhex(c)),
                "ram_filling": ram_filling, "sizes": sizes.map(|s| s.to_vec()), "messages": messages,
            }),
            Check::MustFail { src, token } => json!({"kind": "must_fail", "src": src, "token": token}),
            Check::FailOrImage { src, code } => json!({"kind": "fail_or_image", "src": src, "code": fullhex(code)}),
            Check::Same { a, b, messages, allow_both_fail } => {
                json!({"kind": "same", "a": a, "b": b, "messages": messages, "allow_both_fail": allow_both_fail})
            }
            Check::NoPanic { src } => json!({"kind": "no_panic", "src": src}),
            Check::MustBuild { src } => json!({"kind": "must_build", "src": src}),
        }
    }

    pub fn from_json(v: &Value) -> Option<Check> {
        let s = |k: &str| v.get(k).and_then(|x| x.as_str()).map(|x| x.to_string());
        match v.get("kind")?.as_str()? {
            "image" => Some(Check::Image {
                src: s("src")?,
                code: s("code").map(|h| unhex(&h)),
                eeprom: s("eeprom").map(|h| unhex(&h)),
                ram_filling: v.get("ram_filling").and_then(|x| x.as_u64()).map(|x| x as u32),
                sizes: v.get("sizes").and_then(|x| x.as_array()).map(|a| {
                    let g = |i: usize| a.get(i).and_then(|x| x.as_u64()).unwrap_or(0) as u32;
                    [g(0), g(1), g(2)]
                }),
                messages: v
                    .get("messages")
                    .and_then(|x| x.as_array())
                    .map(|a| a.iter().filter_map(|x| x.as_str().map(|y| y.to_string())).collect()),
            }),
            "must_fail" => Some(Check::MustFail { src: s("src")?, token: s("token") }),
            "fail_or_image" => Some(Check::FailOrImage { src: s("src")?, code: unhex(&s("code")?) }),
            "same" => Some(Check::Same {
                a: s("a")?,
                b: s("b")?,
                messages: v.get("messages").and_then(|x| x.as_bool()).unwrap_or(false),
                allow_both_fail: v.get("allow_both_fail").and_then(|x| x.as_bool()).unwrap_or(false),
            }),
            "no_panic" => Some(Check::NoPanic { src: s("src")? }),
            "must_build" => Some(Check::MustBuild { src: s("src")? }),
            _ => None,
        }
    }
}

/// `needle` occurs in `text` as a stand-alone token (not embedded in a longer alphanumeric run).
pub fn has_token(text: &str, needle: &str) -> bool {
    let tb = text.as_bytes();
    let mut start = 0;
    while let Some(i) = text[start..].find(needle) {
        let a = start + i;
        let b = a + needle.len();
        let before_ok = a == 0 || !(tb[a - 1].is_ascii_alphanumeric() || tb[a - 1] == b'_');
        let after_ok = b >= tb.len() || !(tb[b].is_ascii_alphanumeric() || tb[b] == b'_');
        if before_ok && after_ok {
            return true;
        }
        start = a + 1;
        if start >= text.len() {
            break;
        }
    }
    false
}
