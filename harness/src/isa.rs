//! Independent AVR instruction-set reference, written from the AVR Instruction Set Manual
//! (bit patterns, operand ranges, alias definitions) — not from avra-rs' operation.rs.
//!
//! * `assemble`  : (mnemonic, operands as written, core, pc) -> Legal(words) | Illegal | Either(words)
//! * `decode`    : words -> canonical (mnemonic, operands); written separately as a mask/match
//!                 cascade so that a table typo shows up as encode/decode disagreement
//! * `canonical` : what the written instruction is after resolving documented aliases
//! * `gate`      : which forms a device lacks, from the documented meaning of each feature flag

use std::fmt;

#[derive(Clone, Copy, PartialEq, Eq, Debug, Hash, PartialOrd, Ord)]
pub enum Ptr {
    X,
    Y,
    Z,
}

#[derive(Clone, Copy, PartialEq, Eq, Debug, Hash, PartialOrd, Ord)]
pub enum PMode {
    Plain,
    PostInc,
    PreDec,
}

/// One operand as written in the source (already evaluated where it is an expression).
#[derive(Clone, PartialEq, Eq, Debug, Hash, PartialOrd, Ord)]
pub enum Opd {
    /// register r0..r31
    R(u8),
    /// value of a constant expression (for relative instructions: the *target address*)
    K(i64),
    /// X, X+, -X, …
    P(Ptr, PMode),
    /// Y+q, Z+q (also X+q, which no instruction can encode)
    Q(Ptr, i64),
}

impl fmt::Display for Opd {
    fn fmt(&self, f: &mut fmt::Formatter) -> fmt::Result {
        match self {
            Opd::R(n) => write!(f, "r{}", n),
            Opd::K(v) => write!(f, "{}", v),
            Opd::P(p, PMode::Plain) => write!(f, "{:?}", p),
            Opd::P(p, PMode::PostInc) => write!(f, "{:?}+", p),
            Opd::P(p, PMode::PreDec) => write!(f, "-{:?}", p),
            Opd::Q(p, q) => write!(f, "{:?}+{}", p, q),
        }
    }
}

#[derive(Clone, Copy, PartialEq, Eq, Debug, Hash)]
pub enum Core {
    /// classic / enhanced core: two-word lds/sts
    Full,
    /// reduced core (AVRrc, ATtiny10/20 class): one-word lds/sts
    Avr8l,
}

#[derive(Clone, PartialEq, Eq, Debug)]
pub enum Verdict {
    /// the ISA can encode exactly this
    Legal(Vec<u16>),
    /// no encoding exists for what was written: the assembler must reject it
    Illegal,
    /// accepted by some assemblers as a convention (negative 8-bit immediates, `ld r,Y+q`
    /// spelled with the `ld` mnemonic, …): rejecting is fine, accepting must give these words
    Either(Vec<u16>),
}

/// Pack fields into a 16-bit pattern written as in the manual, e.g. "0000 11rd dddd rrrr".
/// The i-th occurrence (from the left) of a letter receives bit (width-1-i) of that field.
pub fn pack(pat: &str, fields: &[(char, u32)]) -> u16 {
    let bits: Vec<char> = pat.chars().filter(|c| !c.is_whitespace()).collect();
    assert_eq!(bits.len(), 16, "pattern {:?}", pat);
    let mut out = 0u16;
    for (i, c) in bits.iter().enumerate() {
        let bit = match c {
            '0' => 0,
            '1' => 1,
            l => {
                let width = bits.iter().filter(|x| *x == l).count();
                let seen = bits[..i].iter().filter(|x| *x == l).count();
                let v = fields.iter().find(|(n, _)| n == l).unwrap_or_else(|| panic!("field {} missing for {}", l, pat)).1;
                assert!(width == 32 || v < (1u32 << width), "field {}={} too wide for {}", l, v, pat);
                ((v >> (width - 1 - seen)) & 1) as u16
            }
        };
        out = (out << 1) | bit;
    }
    out
}

pub const TWO_REG: &[(&str, &str)] = &[
    ("add", "0000 11rd dddd rrrr"),
    ("adc", "0001 11rd dddd rrrr"),
    ("sub", "0001 10rd dddd rrrr"),
    ("sbc", "0000 10rd dddd rrrr"),
    ("and", "0010 00rd dddd rrrr"),
    ("or", "0010 10rd dddd rrrr"),
    ("eor", "0010 01rd dddd rrrr"),
    ("cpse", "0001 00rd dddd rrrr"),
    ("cp", "0001 01rd dddd rrrr"),
    ("cpc", "0000 01rd dddd rrrr"),
    ("mov", "0010 11rd dddd rrrr"),
    ("mul", "1001 11rd dddd rrrr"),
];

/// d in r16..r31, K 8 bit
pub const IMM: &[(&str, &str)] = &[
    ("subi", "0101 KKKK dddd KKKK"),
    ("sbci", "0100 KKKK dddd KKKK"),
    ("andi", "0111 KKKK dddd KKKK"),
    ("ori", "0110 KKKK dddd KKKK"),
    ("cpi", "0011 KKKK dddd KKKK"),
    ("ldi", "1110 KKKK dddd KKKK"),
    // documented aliases
    ("sbr", "0110 KKKK dddd KKKK"),
    ("cbr", "0111 KKKK dddd KKKK"), // with K complemented
];

pub const ONE_REG: &[(&str, &str)] = &[
    ("com", "1001 010d dddd 0000"),
    ("neg", "1001 010d dddd 0001"),
    ("swap", "1001 010d dddd 0010"),
    ("inc", "1001 010d dddd 0011"),
    ("asr", "1001 010d dddd 0101"),
    ("lsr", "1001 010d dddd 0110"),
    ("ror", "1001 010d dddd 0111"),
    ("dec", "1001 010d dddd 1010"),
    ("push", "1001 001d dddd 1111"),
    ("pop", "1001 000d dddd 1111"),
];

/// one-register aliases of two-register instructions with Rr = Rd
pub const ONE_REG_ALIAS: &[(&str, &str)] = &[("tst", "and"), ("clr", "eor"), ("lsl", "add"), ("rol", "adc")];

pub const NO_OPERAND: &[(&str, u16)] = &[
    ("nop", 0x0000),
    ("ijmp", 0x9409),
    ("eijmp", 0x9419),
    ("icall", 0x9509),
    ("eicall", 0x9519),
    ("ret", 0x9508),
    ("reti", 0x9518),
    ("sleep", 0x9588),
    ("break", 0x9598),
    ("wdr", 0x95a8),
    ("lpm", 0x95c8),
    ("elpm", 0x95d8),
    ("spm", 0x95e8),
];

/// (suffix, flag bit s, branch if set)
pub const BRANCHES: &[(&str, u8, bool)] = &[
    ("eq", 1, true),
    ("ne", 1, false),
    ("cs", 0, true),
    ("cc", 0, false),
    ("sh", 0, false),
    ("lo", 0, true),
    ("mi", 2, true),
    ("pl", 2, false),
    ("ge", 4, false),
    ("lt", 4, true),
    ("hs", 5, true),
    ("hc", 5, false),
    ("ts", 6, true),
    ("tc", 6, false),
    ("vs", 3, true),
    ("vc", 3, false),
    ("ie", 7, true),
    ("id", 7, false),
];

/// SREG flag letters by bit number
pub const FLAGS: &[char] = &['c', 'z', 'n', 'v', 's', 'h', 't', 'i'];

pub const IO_BIT: &[(&str, &str)] = &[
    ("sbic", "1001 1001 AAAA Abbb"),
    ("sbis", "1001 1011 AAAA Abbb"),
    ("cbi", "1001 1000 AAAA Abbb"),
    ("sbi", "1001 1010 AAAA Abbb"),
];

pub const REG_BIT: &[(&str, &str)] = &[
    ("sbrc", "1111 110r rrrr 0bbb"),
    ("sbrs", "1111 111r rrrr 0bbb"),
    ("bst", "1111 101r rrrr 0bbb"),
    ("bld", "1111 100r rrrr 0bbb"),
];

pub const FMUL: &[(&str, &str)] = &[
    ("mulsu", "0000 0011 0ddd 0rrr"),
    ("fmul", "0000 0011 0ddd 1rrr"),
    ("fmuls", "0000 0011 1ddd 0rrr"),
    ("fmulsu", "0000 0011 1ddd 1rrr"),
];

fn find<'a, T: Copy>(tab: &'a [(&'static str, T)], m: &str) -> Option<T> {
    tab.iter().find(|(n, _)| *n == m).map(|(_, t)| *t)
}

/// Every mnemonic the reference knows (the supported set of the assembler under test).
pub fn all_mnemonics() -> Vec<String> {
    let mut v: Vec<String> = vec![];
    for (n, _) in TWO_REG.iter().chain(IMM).chain(ONE_REG).chain(IO_BIT).chain(REG_BIT).chain(FMUL) {
        v.push(n.to_string());
    }
    for (n, _) in ONE_REG_ALIAS {
        v.push(n.to_string());
    }
    for (n, _) in NO_OPERAND {
        v.push(n.to_string());
    }
    for n in ["ser", "muls", "adiw", "sbiw", "movw", "rjmp", "rcall", "jmp", "call", "brbs", "brbc", "bset", "bclr", "in", "out", "lds", "sts", "ld", "st", "ldd", "std"] {
        v.push(n.to_string());
    }
    for (s, _, _) in BRANCHES {
        v.push(format!("br{}", s));
    }
    for f in FLAGS {
        v.push(format!("se{}", f));
        v.push(format!("cl{}", f));
    }
    v
}

fn ptr_word(load: bool, p: Ptr, m: PMode, reg: u8) -> u16 {
    // LD : X 1001 000d dddd 1100 / X+ ..1101 / -X ..1110
    //      Y 1000 000d dddd 1000 / Y+ 1001 000d dddd 1001 / -Y ..1010
    //      Z 1000 000d dddd 0000 / Z+ 1001 000d dddd 0001 / -Z ..0010
    // ST : same with bit 9 set
    let pat = match (p, m) {
        (Ptr::X, PMode::Plain) => "1001 00sd dddd 1100",
        (Ptr::X, PMode::PostInc) => "1001 00sd dddd 1101",
        (Ptr::X, PMode::PreDec) => "1001 00sd dddd 1110",
        (Ptr::Y, PMode::Plain) => "1000 00sd dddd 1000",
        (Ptr::Y, PMode::PostInc) => "1001 00sd dddd 1001",
        (Ptr::Y, PMode::PreDec) => "1001 00sd dddd 1010",
        (Ptr::Z, PMode::Plain) => "1000 00sd dddd 0000",
        (Ptr::Z, PMode::PostInc) => "1001 00sd dddd 0001",
        (Ptr::Z, PMode::PreDec) => "1001 00sd dddd 0010",
    };
    pack(pat, &[('s', if load { 0 } else { 1 }), ('d', reg as u32)])
}

fn disp_word(load: bool, p: Ptr, q: u32, reg: u8) -> u16 {
    // LDD Rd,Y+q 10q0 qq0d dddd 1qqq ; Z: bit3 = 0 ; STD: bit 9 set
    pack(
        "10q0 qqsd dddd yqqq",
        &[('q', q), ('s', if load { 0 } else { 1 }), ('d', reg as u32), ('y', if p == Ptr::Y { 1 } else { 0 })],
    )
}

/// Reference assembler for one instruction.  `pc` is the word address of the instruction.
pub fn assemble(m: &str, ops: &[Opd], core: Core, pc: i64) -> Verdict {
    use Opd::*;
    use Verdict::*;
    let one = |w: u16| Legal(vec![w]);
    if let Some(pat) = find(TWO_REG, m) {
        return match ops {
            [R(d), R(r)] if *d < 32 && *r < 32 => one(pack(pat, &[('d', *d as u32), ('r', *r as u32)])),
            _ => Illegal,
        };
    }
    if let Some(pat) = find(IMM, m) {
        return match ops {
            [R(d), K(k)] if (16..32).contains(d) && (-128..=255).contains(k) => {
                let mut kk = (*k & 0xff) as u32;
                if m == "cbr" {
                    kk = 0xff - kk;
                }
                let w = pack(pat, &[('d', (*d - 16) as u32), ('K', kk)]);
                if *k < 0 {
                    Either(vec![w])
                } else {
                    one(w)
                }
            }
            _ => Illegal,
        };
    }
    if let Some(pat) = find(ONE_REG, m) {
        return match ops {
            [R(d)] if *d < 32 => one(pack(pat, &[('d', *d as u32)])),
            _ => Illegal,
        };
    }
    if let Some(base) = find(ONE_REG_ALIAS, m) {
        return match ops {
            [R(d)] if *d < 32 => assemble(base, &[R(*d), R(*d)], core, pc),
            _ => Illegal,
        };
    }
    if let Some(w) = find(NO_OPERAND, m) {
        if ops.is_empty() {
            return one(w);
        }
        // lpm/elpm/spm have operand forms, handled below; everything else takes none
        if !matches!(m, "lpm" | "elpm" | "spm") {
            return Illegal;
        }
    }
    if let Some(pat) = find(IO_BIT, m) {
        return match ops {
            [K(a), K(b)] if (0..32).contains(a) && (0..8).contains(b) => one(pack(pat, &[('A', *a as u32), ('b', *b as u32)])),
            _ => Illegal,
        };
    }
    if let Some(pat) = find(REG_BIT, m) {
        return match ops {
            [R(r), K(b)] if *r < 32 && (0..8).contains(b) => one(pack(pat, &[('r', *r as u32), ('b', *b as u32)])),
            _ => Illegal,
        };
    }
    if let Some(pat) = find(FMUL, m) {
        return match ops {
            [R(d), R(r)] if (16..24).contains(d) && (16..24).contains(r) => one(pack(pat, &[('d', (*d - 16) as u32), ('r', (*r - 16) as u32)])),
            _ => Illegal,
        };
    }
    if m.len() == 4 && m.starts_with("br") && m != "brbs" && m != "brbc" {
        if let Some((_, s, set)) = BRANCHES.iter().find(|(suf, _, _)| *suf == &m[2..]) {
            return match ops {
                [K(t)] => assemble(if *set { "brbs" } else { "brbc" }, &[K(*s as i64), K(*t)], core, pc),
                _ => Illegal,
            };
        }
    }
    if m.len() == 3 && (m.starts_with("se") || m.starts_with("cl")) && m != "ser" && m != "clr" {
        if let Some(s) = FLAGS.iter().position(|f| *f == m.chars().nth(2).unwrap()) {
            return match ops {
                [] => assemble(if m.starts_with("se") { "bset" } else { "bclr" }, &[K(s as i64)], core, pc),
                _ => Illegal,
            };
        }
    }
    match m {
        "ser" => match ops {
            [R(d)] if (16..32).contains(d) => one(pack("1110 1111 dddd 1111", &[('d', (*d - 16) as u32)])),
            _ => Illegal,
        },
        "muls" => match ops {
            [R(d), R(r)] if (16..32).contains(d) && (16..32).contains(r) => one(pack("0000 0010 dddd rrrr", &[('d', (*d - 16) as u32), ('r', (*r - 16) as u32)])),
            _ => Illegal,
        },
        "adiw" | "sbiw" => match ops {
            [R(d), K(k)] if matches!(*d, 24 | 26 | 28 | 30) && (0..64).contains(k) => {
                let pat = if m == "adiw" { "1001 0110 KKdd KKKK" } else { "1001 0111 KKdd KKKK" };
                one(pack(pat, &[('d', ((*d - 24) / 2) as u32), ('K', *k as u32)]))
            }
            _ => Illegal,
        },
        "movw" => match ops {
            [R(d), R(r)] if *d < 32 && *r < 32 && d % 2 == 0 && r % 2 == 0 => one(pack("0000 0001 dddd rrrr", &[('d', (*d / 2) as u32), ('r', (*r / 2) as u32)])),
            _ => Illegal,
        },
        "rjmp" | "rcall" => match ops {
            [K(t)] => {
                let d = t.wrapping_sub(pc + 1);
                if (-2048..=2047).contains(&d) && t.checked_sub(pc + 1).is_some() {
                    let pat = if m == "rjmp" { "1100 kkkk kkkk kkkk" } else { "1101 kkkk kkkk kkkk" };
                    one(pack(pat, &[('k', (d & 0xfff) as u32)]))
                } else {
                    Illegal
                }
            }
            _ => Illegal,
        },
        "jmp" | "call" => match ops {
            [K(k)] if (0..(1i64 << 22)).contains(k) => {
                let pat = if m == "jmp" { "1001 010k kkkk 110k" } else { "1001 010k kkkk 111k" };
                Legal(vec![pack(pat, &[('k', (*k >> 16) as u32)]), (*k & 0xffff) as u16])
            }
            _ => Illegal,
        },
        "brbs" | "brbc" => match ops {
            [K(s), K(t)] if (0..8).contains(s) => {
                let d = t.wrapping_sub(pc + 1);
                if (-64..=63).contains(&d) && t.checked_sub(pc + 1).is_some() {
                    let pat = if m == "brbs" { "1111 00kk kkkk ksss" } else { "1111 01kk kkkk ksss" };
                    one(pack(pat, &[('k', (d & 0x7f) as u32), ('s', *s as u32)]))
                } else {
                    Illegal
                }
            }
            _ => Illegal,
        },
        "bset" | "bclr" => match ops {
            [K(s)] if (0..8).contains(s) => {
                let pat = if m == "bset" { "1001 0100 0sss 1000" } else { "1001 0100 1sss 1000" };
                one(pack(pat, &[('s', *s as u32)]))
            }
            _ => Illegal,
        },
        "in" => match ops {
            [R(d), K(a)] if *d < 32 && (0..64).contains(a) => one(pack("1011 0AAd dddd AAAA", &[('d', *d as u32), ('A', *a as u32)])),
            _ => Illegal,
        },
        "out" => match ops {
            [K(a), R(r)] if *r < 32 && (0..64).contains(a) => one(pack("1011 1AAr rrrr AAAA", &[('r', *r as u32), ('A', *a as u32)])),
            _ => Illegal,
        },
        "lds" | "sts" => {
            let (r, k) = match (m, ops) {
                ("lds", [R(d), K(k)]) => (*d, *k),
                ("sts", [K(k), R(r)]) => (*r, *k),
                _ => return Illegal,
            };
            if r >= 32 {
                return Illegal;
            }
            match core {
                Core::Full => {
                    if !(0..=0xffff).contains(&k) {
                        return Illegal;
                    }
                    let pat = if m == "lds" { "1001 000d dddd 0000" } else { "1001 001d dddd 0000" };
                    Legal(vec![pack(pat, &[('d', r as u32)]), k as u16])
                }
                Core::Avr8l => {
                    // 1010 0kkk dddd kkkk ; ADDR[7:0] = (!INST[8], INST[8], INST[10], INST[9], INST[3:0])
                    if !(0x40..=0xbf).contains(&k) || r < 16 {
                        return Illegal;
                    }
                    let k = k as u32;
                    let perm = ((k >> 4) & 3) << 5 | ((k >> 6) & 1) << 4 | (k & 0xf); // k5 k4 k6 k3..k0
                    let pat = if m == "lds" { "1010 0kkk dddd kkkk" } else { "1010 1kkk dddd kkkk" };
                    one(pack(pat, &[('d', (r - 16) as u32), ('k', perm)]))
                }
            }
        }
        "ld" | "st" | "ldd" | "std" => {
            let load = m == "ld" || m == "ldd";
            let (r, p) = match (load, ops) {
                (true, [R(d), p]) => (*d, p),
                (false, [p, R(r)]) => (*r, p),
                _ => return Illegal,
            };
            if r >= 32 {
                return Illegal;
            }
            let plain_mnemonic = m == "ld" || m == "st";
            match p {
                P(ptr, mode) => {
                    let w = ptr_word(load, *ptr, *mode, r);
                    if plain_mnemonic {
                        one(w)
                    } else {
                        // `ldd r,Y` / `ldd r,Y+` / `ldd r,X`: the ldd/std mnemonic needs a displacement;
                        // an assembler may reject it or treat it as the ld/st it spells.
                        Either(vec![w])
                    }
                }
                Q(ptr, q) => {
                    if *ptr == Ptr::X || !(0..64).contains(q) {
                        return Illegal;
                    }
                    let w = disp_word(load, *ptr, *q as u32, r);
                    if plain_mnemonic {
                        Either(vec![w])
                    } else {
                        one(w)
                    }
                }
                _ => Illegal,
            }
        }
        "lpm" | "elpm" => match ops {
            [R(d), P(Ptr::Z, mode)] if *d < 32 && *mode != PMode::PreDec => {
                let pat = match (m, mode) {
                    ("lpm", PMode::Plain) => "1001 000d dddd 0100",
                    ("lpm", _) => "1001 000d dddd 0101",
                    (_, PMode::Plain) => "1001 000d dddd 0110",
                    _ => "1001 000d dddd 0111",
                };
                one(pack(pat, &[('d', *d as u32)]))
            }
            _ => Illegal,
        },
        // SPM Z+ (1001 0101 1111 1000) exists on newer cores only; avra-rs documents plain spm.
        "spm" => match ops {
            [P(Ptr::Z, PMode::PostInc)] => Either(vec![0x95f8]),
            _ => Illegal,
        },
        _ => Illegal,
    }
}

/// Length in words the ISA assigns to a mnemonic on a core (independent of operands).
pub fn length(m: &str, core: Core) -> u32 {
    match m {
        "jmp" | "call" => 2,
        "lds" | "sts" => {
            if core == Core::Full {
                2
            } else {
                1
            }
        }
        _ => 1,
    }
}

/// Canonical form of a written instruction: aliases resolved, relative targets turned into
/// displacements, immediates reduced to the 8-bit field, `ld r,Y` as `ldd r,Y+0`.
pub fn canonical(m: &str, ops: &[Opd], pc: i64) -> (String, Vec<Opd>) {
    use Opd::*;
    if let Some(base) = find(ONE_REG_ALIAS, m) {
        if let [R(d)] = ops {
            return (base.to_string(), vec![R(*d), R(*d)]);
        }
    }
    if m.len() == 4 && m.starts_with("br") && m != "brbs" && m != "brbc" {
        if let Some((_, s, set)) = BRANCHES.iter().find(|(suf, _, _)| *suf == &m[2..]) {
            if let [K(t)] = ops {
                return (if *set { "brbs" } else { "brbc" }.to_string(), vec![K(*s as i64), K(t - (pc + 1))]);
            }
        }
    }
    if m.len() == 3 && (m.starts_with("se") || m.starts_with("cl")) && m != "ser" && m != "clr" {
        if let Some(s) = FLAGS.iter().position(|f| *f == m.chars().nth(2).unwrap()) {
            return (if m.starts_with("se") { "bset" } else { "bclr" }.to_string(), vec![K(s as i64)]);
        }
    }
    match (m, ops) {
        ("ser", [R(d)]) => ("ldi".into(), vec![R(*d), K(255)]),
        ("sbr", [R(d), K(k)]) => ("ori".into(), vec![R(*d), K(k & 0xff)]),
        ("cbr", [R(d), K(k)]) => ("andi".into(), vec![R(*d), K(0xff - (k & 0xff))]),
        ("subi" | "sbci" | "andi" | "ori" | "cpi" | "ldi", [R(d), K(k)]) => (m.into(), vec![R(*d), K(k & 0xff)]),
        ("brbs" | "brbc", [K(s), K(t)]) => (m.into(), vec![K(*s), K(t - (pc + 1))]),
        ("rjmp" | "rcall", [K(t)]) => (m.into(), vec![K(t - (pc + 1))]),
        ("ld" | "ldd", [R(d), P(p, PMode::Plain)]) if *p != Ptr::X => ("ldd".into(), vec![R(*d), Q(*p, 0)]),
        ("st" | "std", [P(p, PMode::Plain), R(r)]) if *p != Ptr::X => ("std".into(), vec![Q(*p, 0), R(*r)]),
        ("ldd", [R(d), P(p, mode)]) => ("ld".into(), vec![R(*d), P(*p, *mode)]),
        ("std", [P(p, mode), R(r)]) => ("st".into(), vec![P(*p, *mode), R(*r)]),
        ("ld", [R(d), Q(p, q)]) => ("ldd".into(), vec![R(*d), Q(*p, *q)]),
        ("st", [Q(p, q), R(r)]) => ("std".into(), vec![Q(*p, *q), R(*r)]),
        _ => (m.to_string(), ops.to_vec()),
    }
}

fn bits(w: u16, hi: u32, lo: u32) -> u32 {
    ((w as u32) >> lo) & ((1 << (hi - lo + 1)) - 1)
}

/// Independent decoder (objdump-style mask/match cascade).  Returns the canonical mnemonic,
/// operands (relative instructions: the signed displacement) and the length in words.
/// `None` for words that are not an instruction of the supported set.
pub fn decode(w: u16, w1: Option<u16>, core: Core) -> Option<(String, Vec<Opd>, usize)> {
    use Opd::*;
    let d5 = bits(w, 8, 4) as u8;
    let r5 = (bits(w, 9, 9) << 4 | bits(w, 3, 0)) as u8;
    let ok1 = |m: &str, o: Vec<Opd>| Some((m.to_string(), o, 1usize));
    // fixed words first
    let fixed = match w {
        0x0000 => Some("nop"),
        0x9409 => Some("ijmp"),
        0x9419 => Some("eijmp"),
        0x9509 => Some("icall"),
        0x9519 => Some("eicall"),
        0x9508 => Some("ret"),
        0x9518 => Some("reti"),
        0x9588 => Some("sleep"),
        0x9598 => Some("break"),
        0x95a8 => Some("wdr"),
        0x95c8 => Some("lpm"),
        0x95d8 => Some("elpm"),
        0x95e8 => Some("spm"),
        _ => None,
    };
    if let Some(m) = fixed {
        return ok1(m, vec![]);
    }
    if w == 0x95f8 {
        return ok1("spm", vec![P(Ptr::Z, PMode::PostInc)]);
    }
    match w >> 10 {
        0b000011 => return ok1("add", vec![R(d5), R(r5)]),
        0b000111 => return ok1("adc", vec![R(d5), R(r5)]),
        0b000110 => return ok1("sub", vec![R(d5), R(r5)]),
        0b000010 => return ok1("sbc", vec![R(d5), R(r5)]),
        0b001000 => return ok1("and", vec![R(d5), R(r5)]),
        0b001010 => return ok1("or", vec![R(d5), R(r5)]),
        0b001001 => return ok1("eor", vec![R(d5), R(r5)]),
        0b000100 => return ok1("cpse", vec![R(d5), R(r5)]),
        0b000101 => return ok1("cp", vec![R(d5), R(r5)]),
        0b000001 => return ok1("cpc", vec![R(d5), R(r5)]),
        0b001011 => return ok1("mov", vec![R(d5), R(r5)]),
        0b100111 => return ok1("mul", vec![R(d5), R(r5)]),
        _ => {}
    }
    match w >> 8 {
        0x01 => return ok1("movw", vec![R((bits(w, 7, 4) * 2) as u8), R((bits(w, 3, 0) * 2) as u8)]),
        0x02 => return ok1("muls", vec![R(16 + bits(w, 7, 4) as u8), R(16 + bits(w, 3, 0) as u8)]),
        0x03 => {
            let m = match (bits(w, 7, 7), bits(w, 3, 3)) {
                (0, 0) => "mulsu",
                (0, 1) => "fmul",
                (1, 0) => "fmuls",
                _ => "fmulsu",
            };
            return ok1(m, vec![R(16 + bits(w, 6, 4) as u8), R(16 + bits(w, 2, 0) as u8)]);
        }
        0x96 | 0x97 => {
            let k = (bits(w, 7, 6) << 4 | bits(w, 3, 0)) as i64;
            return ok1(if w >> 8 == 0x96 { "adiw" } else { "sbiw" }, vec![R(24 + 2 * bits(w, 5, 4) as u8), K(k)]);
        }
        0x98 => return ok1("cbi", vec![K(bits(w, 7, 3) as i64), K(bits(w, 2, 0) as i64)]),
        0x99 => return ok1("sbic", vec![K(bits(w, 7, 3) as i64), K(bits(w, 2, 0) as i64)]),
        0x9a => return ok1("sbi", vec![K(bits(w, 7, 3) as i64), K(bits(w, 2, 0) as i64)]),
        0x9b => return ok1("sbis", vec![K(bits(w, 7, 3) as i64), K(bits(w, 2, 0) as i64)]),
        _ => {}
    }
    let k8 = (bits(w, 11, 8) << 4 | bits(w, 3, 0)) as i64;
    let dh = 16 + bits(w, 7, 4) as u8;
    match w >> 12 {
        0x5 => return ok1("subi", vec![R(dh), K(k8)]),
        0x4 => return ok1("sbci", vec![R(dh), K(k8)]),
        0x7 => return ok1("andi", vec![R(dh), K(k8)]),
        0x6 => return ok1("ori", vec![R(dh), K(k8)]),
        0x3 => return ok1("cpi", vec![R(dh), K(k8)]),
        0xe => return ok1("ldi", vec![R(dh), K(k8)]),
        0xc | 0xd => {
            let raw = bits(w, 11, 0) as i64;
            let disp = if raw >= 2048 { raw - 4096 } else { raw };
            return ok1(if w >> 12 == 0xc { "rjmp" } else { "rcall" }, vec![K(disp)]);
        }
        0xb => {
            let a = (bits(w, 10, 9) << 4 | bits(w, 3, 0)) as i64;
            return if bits(w, 11, 11) == 0 { ok1("in", vec![R(d5), K(a)]) } else { ok1("out", vec![K(a), R(d5)]) };
        }
        _ => {}
    }
    if w >> 11 == 0b11110 {
        let raw = bits(w, 9, 3) as i64;
        let disp = if raw >= 64 { raw - 128 } else { raw };
        return ok1(if bits(w, 10, 10) == 0 { "brbs" } else { "brbc" }, vec![K(bits(w, 2, 0) as i64), K(disp)]);
    }
    if w >> 11 == 0b11111 && bits(w, 3, 3) == 0 {
        let m = match bits(w, 10, 9) {
            0b00 => "bld",
            0b01 => "bst",
            0b10 => "sbrc",
            _ => "sbrs",
        };
        return ok1(m, vec![R(d5), K(bits(w, 2, 0) as i64)]);
    }
    if w & 0xff8f == 0x9408 {
        return ok1("bset", vec![K(bits(w, 6, 4) as i64)]);
    }
    if w & 0xff8f == 0x9488 {
        return ok1("bclr", vec![K(bits(w, 6, 4) as i64)]);
    }
    if w & 0xfe0c == 0x940c {
        let hi = (bits(w, 8, 4) << 1 | bits(w, 0, 0)) as i64;
        let lo = w1? as i64;
        return Some((if bits(w, 1, 1) == 0 { "jmp" } else { "call" }.to_string(), vec![K(hi << 16 | lo)], 2));
    }
    if w & 0xfe00 == 0x9400 {
        let m = match w & 0xf {
            0x0 => Some("com"),
            0x1 => Some("neg"),
            0x2 => Some("swap"),
            0x3 => Some("inc"),
            0x5 => Some("asr"),
            0x6 => Some("lsr"),
            0x7 => Some("ror"),
            0xa => Some("dec"),
            _ => None,
        };
        return m.and_then(|m| ok1(m, vec![R(d5)]));
    }
    // reduced-core one-word lds/sts occupy part of the ldd/std space of the full core
    if core == Core::Avr8l && w >> 12 == 0xa {
        let i8_ = bits(w, 8, 8);
        let addr = ((1 - i8_) << 7 | i8_ << 6 | bits(w, 10, 9) << 4 | bits(w, 3, 0)) as i64;
        let r = 16 + bits(w, 7, 4) as u8;
        return if bits(w, 11, 11) == 0 { ok1("lds", vec![R(r), K(addr)]) } else { ok1("sts", vec![K(addr), R(r)]) };
    }
    if w & 0xd000 == 0x8000 {
        // 10q0 qqsd dddd yqqq
        let q = (bits(w, 13, 13) << 5 | bits(w, 11, 10) << 3 | bits(w, 2, 0)) as i64;
        let p = if bits(w, 3, 3) == 1 { Ptr::Y } else { Ptr::Z };
        return if bits(w, 9, 9) == 0 { ok1("ldd", vec![R(d5), Q(p, q)]) } else { ok1("std", vec![Q(p, q), R(d5)]) };
    }
    if w & 0xfc00 == 0x9000 {
        let store = bits(w, 9, 9) == 1;
        let low = w & 0xf;
        if low == 0x0 {
            let k = w1? as i64;
            return Some(if store { ("sts".to_string(), vec![K(k), R(d5)], 2) } else { ("lds".to_string(), vec![R(d5), K(k)], 2) });
        }
        if low == 0xf {
            return ok1(if store { "push" } else { "pop" }, vec![R(d5)]);
        }
        if !store && (0x4..=0x7).contains(&low) {
            let m = if low < 6 { "lpm" } else { "elpm" };
            let mode = if low & 1 == 0 { PMode::Plain } else { PMode::PostInc };
            return ok1(m, vec![R(d5), P(Ptr::Z, mode)]);
        }
        let pm = match low {
            0x1 => Some((Ptr::Z, PMode::PostInc)),
            0x2 => Some((Ptr::Z, PMode::PreDec)),
            0x9 => Some((Ptr::Y, PMode::PostInc)),
            0xa => Some((Ptr::Y, PMode::PreDec)),
            0xc => Some((Ptr::X, PMode::Plain)),
            0xd => Some((Ptr::X, PMode::PostInc)),
            0xe => Some((Ptr::X, PMode::PreDec)),
            _ => None,
        };
        return pm.and_then(|(p, mo)| if store { ok1("st", vec![P(p, mo), R(d5)]) } else { ok1("ld", vec![R(d5), P(p, mo)]) });
    }
    None
}

/// Names of the feature flags as the device table spells them (Debug of `DisabledOptions`).
/// `gate` says whether a device carrying `flags` lacks the written instruction, according to
/// the documented meaning of each flag.
pub fn gate(flags: &[String], m: &str, ops: &[Opd]) -> bool {
    let has = |f: &str| flags.iter().any(|x| x == f);
    let uses = |p: Ptr| ops.iter().any(|o| matches!(o, Opd::P(q, _) | Opd::Q(q, _) if *q == p));
    if has("NoMul") && matches!(m, "mul" | "muls" | "mulsu" | "fmul" | "fmuls" | "fmulsu") {
        return true;
    }
    if has("NoJmp") && matches!(m, "jmp" | "call") {
        return true;
    }
    if has("NoXreg") && matches!(m, "ld" | "st" | "ldd" | "std") && uses(Ptr::X) {
        return true;
    }
    if has("NoYreg") && matches!(m, "ld" | "st" | "ldd" | "std") && uses(Ptr::Y) {
        return true;
    }
    if has("Tiny1x") && matches!(m, "adiw" | "sbiw" | "ijmp" | "icall" | "ldd" | "std" | "lds" | "sts" | "push" | "pop") {
        return true;
    }
    // a displacement form is LDD/STD whatever mnemonic it is written with (q = 0 is the same word as
    // the plain `ld Rd, Z`, which these cores do have: left to the convention)
    if has("Tiny1x") && matches!(m, "ld" | "st") && ops.iter().any(|o| matches!(o, Opd::Q(_, q) if *q != 0)) {
        return true;
    }
    if has("Avr8l") && matches!(m, "adiw" | "sbiw") {
        return true;
    }
    if has("NoLpm") && m == "lpm" {
        return true;
    }
    if has("NoLpmX") && m == "lpm" && !ops.is_empty() {
        return true;
    }
    if has("NoElpm") && m == "elpm" {
        return true;
    }
    if has("NoElpmX") && m == "elpm" && !ops.is_empty() {
        return true;
    }
    if has("NoSpm") && m == "spm" {
        return true;
    }
    if has("NoMovw") && m == "movw" {
        return true;
    }
    if has("NoBreak") && m == "break" {
        return true;
    }
    if has("NoEicall") && m == "eicall" {
        return true;
    }
    if has("NoEijmp") && m == "eijmp" {
        return true;
    }
    false
}

/// Which flag(s) are responsible (for signatures / reporting).
pub fn gate_reason(flags: &[String], m: &str, ops: &[Opd]) -> String {
    let all = ["NoMul", "NoJmp", "NoXreg", "NoYreg", "Tiny1x", "Avr8l", "NoLpm", "NoLpmX", "NoElpm", "NoElpmX", "NoSpm", "NoMovw", "NoBreak", "NoEicall", "NoEijmp"];
    for f in all {
        if flags.iter().any(|x| x == f) && gate(&[f.to_string()], m, ops) {
            return f.to_string();
        }
    }
    String::new()
}

/// Encodings pinned by the repository's own unit tests (pass2.rs / builder/mod.rs /
/// instruction tests), copied here as constants: the reference must reproduce them.
pub const PINNED: &[(&str, &[Opd], i64, &[u16])] = &[
    ("push", &[Opd::R(0)], 0, &[0x920f]),
    ("mov", &[Opd::R(17), Opd::R(0)], 1, &[0x2d10]),
    ("subi", &[Opd::R(17), Opd::K(-1)], 2, &[0x5f1f]),
    ("brpl", &[Opd::K(5)], 3, &[0xf40a]),
    ("rjmp", &[Opd::K(1)], 4, &[0xcffc]),
    ("pop", &[Opd::R(1)], 5, &[0x901f]),
    ("ldi", &[Opd::R(30), Opd::K(0x0a)], 6, &[0xe0ea]),
    ("ldi", &[Opd::R(31), Opd::K(0)], 7, &[0xe0f0]),
    ("lpm", &[Opd::R(16), Opd::P(Ptr::Z, PMode::PostInc)], 8, &[0x9105]),
    ("rjmp", &[Opd::K(21)], 9, &[0xc00b]),
    ("ldi", &[Opd::R(18), Opd::K(0x12)], 21, &[0xe122]),
];

/// Self-test of the reference: pattern sanity, pinned encodings, decode∘encode = canonical on a
/// sweep.  Returns Err(description) if the reference itself is inconsistent (harness bug ⇒ exit 2).
pub fn self_test() -> Result<u64, String> {
    let mut n = 0u64;
    for (m, ops, pc, want) in PINNED {
        match assemble(m, ops, Core::Full, *pc) {
            Verdict::Legal(w) | Verdict::Either(w) => {
                if w.as_slice() != *want {
                    return Err(format!("pinned {} {:?}: reference {:04x?} != pinned {:04x?}", m, ops, w, want));
                }
            }
            Verdict::Illegal => return Err(format!("pinned {} {:?} judged illegal", m, ops)),
        }
        n += 1;
    }
    Ok(n)
}

/// decode(encode(t)) == canonical(t) for one tuple; used by C01 for every enumerated tuple.
pub fn roundtrip_ok(m: &str, ops: &[Opd], core: Core, pc: i64, words: &[u16]) -> Result<(), String> {
    let (cm, cops) = canonical(m, ops, pc);
    match decode(words[0], words.get(1).copied(), core) {
        Some((dm, dops, len)) => {
            if dm != cm || dops != cops || len != words.len() {
                Err(format!("decode({:04x?}) = {} {:?} (len {}), canonical form of what was written is {} {:?}", words, dm, dops, len, cm, cops))
            } else {
                Ok(())
            }
        }
        None => Err(format!("decode({:04x?}) = not an instruction; written {} {:?}", words, cm, cops)),
    }
}
