//! Safe invocation of the library under test.
//!
//! Every call goes through `catch_unwind`; the process-wide panic hook is replaced once by a
//! recorder that stores the panic message and location in a thread local instead of printing.

use avra_lib::builder::{build_file as lib_build_file, build_str, BuildResult};
use std::cell::RefCell;
use std::collections::BTreeSet;
use std::panic::{catch_unwind, AssertUnwindSafe};
use std::path::PathBuf;
use std::sync::Once;

thread_local! {
    static LAST_PANIC: RefCell<Option<String>> = RefCell::new(None);
    /// true while the thread is inside a guarded call into the library under test
    static GUARDED: std::cell::Cell<bool> = std::cell::Cell::new(false);
}

/// Run `f` with panics recorded instead of printed (the call is wrapped in catch_unwind by the caller).
pub fn guarded<T>(f: impl FnOnce() -> T) -> T {
    GUARDED.with(|g| g.set(true));
    struct Reset;
    impl Drop for Reset {
        fn drop(&mut self) {
            GUARDED.with(|g| g.set(false));
        }
    }
    let _r = Reset;
    f()
}

static HOOK: Once = Once::new();

pub fn install_hook() {
    HOOK.call_once(|| {
        std::panic::set_hook(Box::new(|info| {
            let msg = if let Some(s) = info.payload().downcast_ref::<&str>() {
                s.to_string()
            } else if let Some(s) = info.payload().downcast_ref::<String>() {
                s.clone()
            } else {
                "<non-string panic>".to_string()
            };
            let loc = info
                .location()
                .map(|l| format!("{}:{}", l.file(), l.line()))
                .unwrap_or_default();
            if !GUARDED.with(|g| g.get()) {
                // a panic of the harness itself: make it visible (the process exits with 101 -> exit 2)
                eprintln!("HARNESS PANIC: {} @ {}", msg, loc);
            }
            LAST_PANIC.with(|p| *p.borrow_mut() = Some(format!("{} @ {}", msg, loc)));
        }));
    });
}

#[derive(Clone, Debug, PartialEq)]
pub enum Outcome {
    Ok(BuildResult),
    Err(String),
    Panic(String),
}

impl Outcome {
    pub fn is_ok(&self) -> bool {
        matches!(self, Outcome::Ok(_))
    }
    pub fn is_err(&self) -> bool {
        matches!(self, Outcome::Err(_))
    }
    pub fn is_panic(&self) -> bool {
        matches!(self, Outcome::Panic(_))
    }
    pub fn ok(&self) -> Option<&BuildResult> {
        match self {
            Outcome::Ok(b) => Some(b),
            _ => None,
        }
    }
    /// Short textual form used in replay files and samples.
    pub fn brief(&self) -> String {
        match self {
            Outcome::Ok(b) => format!(
                "Ok(code={} eeprom={} ram_filling={} msgs={})",
                hex(&b.code, 48),
                hex(&b.eeprom, 32),
                b.ram_filling,
                b.messages.len()
            ),
            Outcome::Err(e) => format!("Err({})", truncate(e, 200)),
            Outcome::Panic(p) => format!("Panic({})", truncate(p, 200)),
        }
    }
    pub fn kind(&self) -> &'static str {
        match self {
            Outcome::Ok(_) => "ok",
            Outcome::Err(_) => "err",
            Outcome::Panic(_) => "panic",
        }
    }
}

pub fn truncate(s: &str, n: usize) -> String {
    if s.len() <= n {
        s.to_string()
    } else {
        let mut end = n;
        while !s.is_char_boundary(end) {
            end -= 1;
        }
        format!("{}…", &s[..end])
    }
}

pub fn hex(b: &[u8], max: usize) -> String {
    let mut s = String::new();
    for x in b.iter().take(max) {
        s.push_str(&format!("{:02x}", x));
    }
    if b.len() > max {
        s.push_str(&format!("…(+{}B)", b.len() - max));
    }
    s
}

pub fn build(src: &str) -> Outcome {
    install_hook();
    LAST_PANIC.with(|p| *p.borrow_mut() = None);
    match catch_unwind(AssertUnwindSafe(|| guarded(|| build_str(src)))) {
        Ok(Ok(b)) => Outcome::Ok(b),
        Ok(Err(e)) => Outcome::Err(e.to_string()),
        Err(_) => Outcome::Panic(
            LAST_PANIC
                .with(|p| p.borrow_mut().take())
                .unwrap_or_else(|| "<unknown panic>".into()),
        ),
    }
}

pub fn build_file(path: PathBuf, paths: BTreeSet<PathBuf>) -> Outcome {
    install_hook();
    LAST_PANIC.with(|p| *p.borrow_mut() = None);
    match catch_unwind(AssertUnwindSafe(|| guarded(|| lib_build_file(path, paths)))) {
        Ok(Ok(b)) => Outcome::Ok(b),
        Ok(Err(e)) => Outcome::Err(e.to_string()),
        Err(_) => Outcome::Panic(
            LAST_PANIC
                .with(|p| p.borrow_mut().take())
                .unwrap_or_else(|| "<unknown panic>".into()),
        ),
    }
}

/// Words of a little-endian byte image.
pub fn words(code: &[u8]) -> Vec<u16> {
    code.chunks(2)
        .map(|c| c[0] as u16 | (*c.get(1).unwrap_or(&0) as u16) << 8)
        .collect()
}

/// Scratch directory for this process: /verif/scratch/<pid>.
pub fn scratch_dir() -> PathBuf {
    let base = std::env::var("VERIF_SCRATCH").unwrap_or_else(|_| {
        let root = std::env::var("VERIF_ROOT").unwrap_or_else(|_| "/verif".to_string());
        format!("{}/scratch/{}", root, std::process::id())
    });
    let p = PathBuf::from(base);
    let _ = std::fs::create_dir_all(&p);
    p
}

pub fn verif_root() -> PathBuf {
    PathBuf::from(std::env::var("VERIF_ROOT").unwrap_or_else(|_| "/verif".to_string()))
}
