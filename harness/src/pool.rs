//! Isolated worker processes for C16 (and the fresh-process legs of C17).
//!
//! `avra-verif worker` reads one JSON array of source texts per line on stdin and answers one
//! JSON array of outcomes per line ("o" = Ok, "e:<text>" = Err, "p:<message>" = panic caught).
//! It runs the builds on its main thread (8 MiB stack, like the CLI) under a 1 GiB address-space
//! limit.  A worker that dies (stack overflow, allocation failure → abort) or does not answer in
//! time is an *outcome* of the case in flight; the parent restarts it and bisects the batch.

use crate::run::{build, Outcome};
use serde_json::Value;
use std::io::{BufRead, BufReader, Write};
use std::process::{Child, ChildStdin, Command, Stdio};
use std::sync::mpsc::{channel, Receiver, RecvTimeoutError};
use std::time::Duration;

#[derive(Clone, Debug, PartialEq)]
pub enum WOutcome {
    Ok(Value),
    Err(String),
    Panic(String),
    /// the process died: description (signal, stderr tail)
    Died(String),
    Timeout,
}

impl WOutcome {
    pub fn kind(&self) -> &'static str {
        match self {
            WOutcome::Ok(_) => "ok",
            WOutcome::Err(_) => "err",
            WOutcome::Panic(_) => "panic",
            WOutcome::Died(_) => "died",
            WOutcome::Timeout => "timeout",
        }
    }
    pub fn is_clean(&self) -> bool {
        matches!(self, WOutcome::Ok(_) | WOutcome::Err(_))
    }
}

/// Entry point of the worker process.  `full`: answer with the complete BuildResult (C17).
pub fn worker_main(full: bool) {
    let stdin = std::io::stdin();
    let stdout = std::io::stdout();
    let mut out = stdout.lock();
    for line in stdin.lock().lines() {
        let line = match line {
            Ok(l) => l,
            Err(_) => break,
        };
        let batch: Vec<String> = match serde_json::from_str(&line) {
            Ok(b) => b,
            Err(_) => break,
        };
        let mut res: Vec<Value> = Vec::with_capacity(batch.len());
        for src in &batch {
            let o = if let Some(spec) = src.strip_prefix("\u{2}FILE:") {
                // build_file request: {"main": path, "paths": [dir, ...]}
                match serde_json::from_str::<Value>(spec) {
                    Ok(v) => {
                        let main = std::path::PathBuf::from(v.get("main").and_then(|x| x.as_str()).unwrap_or(""));
                        let paths: std::collections::BTreeSet<std::path::PathBuf> =
                            v.get("paths").and_then(|x| x.as_array()).map(|a| a.iter().filter_map(|p| p.as_str().map(std::path::PathBuf::from)).collect()).unwrap_or_default();
                        crate::run::build_file(main, paths)
                    }
                    Err(e) => Outcome::Err(format!("bad FILE request: {}", e)),
                }
            } else {
                build(src)
            };
            res.push(match o {
                Outcome::Ok(b) => {
                    if full {
                        serde_json::json!({"k": "o", "code": crate::run::hex(&b.code, usize::MAX), "eeprom": crate::run::hex(&b.eeprom, usize::MAX), "sizes": [b.flash_size, b.eeprom_size, b.ram_size, b.ram_filling], "messages": b.messages})
                    } else {
                        Value::String("o".into())
                    }
                }
                Outcome::Err(e) => Value::String(format!("e:{}", if full { e } else { crate::run::truncate(&e, 120) })),
                Outcome::Panic(p) => Value::String(format!("p:{}", p)),
            });
        }
        if writeln!(out, "{}", serde_json::to_string(&res).unwrap()).is_err() {
            break;
        }
        let _ = out.flush();
    }
}

pub struct Worker {
    child: Child,
    stdin: ChildStdin,
    rx: Receiver<String>,
    errfile: std::path::PathBuf,
    full: bool,
}

impl Worker {
    pub fn spawn(tag: &str, full: bool) -> Result<Worker, String> {
        let exe = std::env::current_exe().map_err(|e| e.to_string())?;
        let errfile = crate::run::scratch_dir().join(format!("worker-{}.err", tag));
        let err = std::fs::File::create(&errfile).map_err(|e| e.to_string())?;
        // 1 GiB address space; 2 MiB main stack = what a Rust thread gets by default, the smallest
        // stack a caller of the library can reasonably be expected to run a build on
        let mut child = Command::new("sh")
            .arg("-c")
            .arg("ulimit -v 1048576; ulimit -s 2048; exec \"$0\" \"$1\"")
            .arg(&exe)
            .arg(if full { "worker-full" } else { "worker" })
            .env("RUST_BACKTRACE", "0")
            .stdin(Stdio::piped())
            .stdout(Stdio::piped())
            .stderr(Stdio::from(err))
            .spawn()
            .map_err(|e| format!("cannot spawn worker: {}", e))?;
        let stdin = child.stdin.take().ok_or("no stdin")?;
        let stdout = child.stdout.take().ok_or("no stdout")?;
        let (tx, rx) = channel();
        std::thread::spawn(move || {
            let r = BufReader::new(stdout);
            for l in r.lines() {
                match l {
                    Ok(l) => {
                        if tx.send(l).is_err() {
                            break;
                        }
                    }
                    Err(_) => break,
                }
            }
        });
        Ok(Worker { child, stdin, rx, errfile, full })
    }

    fn death_note(&mut self) -> String {
        use std::os::unix::process::ExitStatusExt;
        let _ = self.child.kill();
        let st = self.child.wait();
        let sig = match st {
            Ok(s) => match s.signal() {
                Some(n) => format!("signal {}", n),
                None => format!("exit status {:?}", s.code()),
            },
            Err(e) => format!("wait failed: {}", e),
        };
        let tail = std::fs::read_to_string(&self.errfile).unwrap_or_default();
        let tail = tail.lines().rev().find(|l| !l.trim().is_empty()).unwrap_or("").to_string();
        let all = std::fs::read_to_string(&self.errfile).unwrap_or_default();
        let cause = if all.contains("overflowed its stack") || all.contains("stack overflow") {
            "stack overflow"
        } else if all.contains("memory allocation") {
            "allocation failure"
        } else {
            "abort"
        };
        format!("{} ({}; stderr: {})", cause, sig, crate::run::truncate(&tail, 160))
    }

    /// Runs a batch.  Err(note) when the worker died or timed out (the worker is dead afterwards).
    fn try_batch(&mut self, batch: &[String], timeout: Duration) -> Result<Vec<WOutcome>, (bool, String)> {
        let line = serde_json::to_string(batch).unwrap();
        if writeln!(self.stdin, "{}", line).is_err() || self.stdin.flush().is_err() {
            return Err((false, self.death_note()));
        }
        match self.rx.recv_timeout(timeout) {
            Ok(l) => {
                let v: Vec<Value> = serde_json::from_str(&l).map_err(|e| (false, format!("bad worker answer: {}", e)))?;
                Ok(v.into_iter()
                    .map(|x| match &x {
                        Value::String(s) if s == "o" => WOutcome::Ok(Value::Null),
                        Value::String(s) if s.starts_with("e:") => WOutcome::Err(s[2..].to_string()),
                        Value::String(s) if s.starts_with("p:") => WOutcome::Panic(s[2..].to_string()),
                        other => WOutcome::Ok(other.clone()),
                    })
                    .collect())
            }
            Err(RecvTimeoutError::Timeout) => {
                let _ = self.death_note();
                Err((true, "no answer in time".into()))
            }
            Err(RecvTimeoutError::Disconnected) => Err((false, self.death_note())),
        }
    }
}

impl Drop for Worker {
    fn drop(&mut self) {
        let _ = self.child.kill();
        let _ = self.child.wait();
        let _ = std::fs::remove_file(&self.errfile);
    }
}

/// A worker slot that restarts its process when needed and isolates the culprit of a failed batch.
pub struct Slot {
    tag: String,
    worker: Option<Worker>,
    full: bool,
    pub restarts: u64,
    pub batch_timeout: Duration,
    pub single_timeout: Duration,
}

impl Slot {
    pub fn new(tag: &str, full: bool) -> Slot {
        Slot { tag: tag.to_string(), worker: None, full, restarts: 0, batch_timeout: Duration::from_secs(20), single_timeout: Duration::from_secs(10) }
    }

    fn worker(&mut self) -> Result<&mut Worker, String> {
        if self.worker.is_none() {
            self.worker = Some(Worker::spawn(&self.tag, self.full)?);
            self.restarts += 1;
        }
        Ok(self.worker.as_mut().unwrap())
    }

    /// Outcome per case.  Err only for infrastructure failures (cannot spawn).
    pub fn run(&mut self, batch: &[String]) -> Result<Vec<WOutcome>, String> {
        if batch.is_empty() {
            return Ok(vec![]);
        }
        let t = if batch.len() == 1 { self.single_timeout } else { self.batch_timeout };
        let r = self.worker()?.try_batch(batch, t);
        match r {
            Ok(v) if v.len() == batch.len() => Ok(v),
            Ok(_) => Err("worker answered with a different number of outcomes".into()),
            Err((timed_out, note)) => {
                self.worker = None;
                if batch.len() == 1 {
                    if timed_out {
                        // re-run alone with a longer limit before it counts
                        let r2 = self.worker()?.try_batch(batch, Duration::from_secs(30));
                        match r2 {
                            Ok(v) => return Ok(v),
                            Err((true, _)) => {
                                self.worker = None;
                                return Ok(vec![WOutcome::Timeout]);
                            }
                            Err((false, n)) => {
                                self.worker = None;
                                return Ok(vec![WOutcome::Died(n)]);
                            }
                        }
                    }
                    // a death counts when it repeats: a worker can also die of the machine's own
                    // shortage of memory (seen under a heavily loaded host: "Fatal glibc error: failed
                    // to register TLS destructor: out of memory" at process start), which says nothing
                    // about the case — a case that really kills the process does so every time
                    let mut last = note;
                    for _ in 0..2 {
                        std::thread::sleep(Duration::from_millis(300));
                        match self.worker()?.try_batch(batch, Duration::from_secs(30)) {
                            Ok(v) => return Ok(v),
                            Err((true, _)) => {
                                self.worker = None;
                                return Ok(vec![WOutcome::Timeout]);
                            }
                            Err((false, n)) => {
                                self.worker = None;
                                last = n;
                            }
                        }
                    }
                    return Ok(vec![WOutcome::Died(last)]);
                }
                // bisect
                let mid = batch.len() / 2;
                let mut a = self.run(&batch[..mid])?;
                let b = self.run(&batch[mid..])?;
                a.extend(b);
                Ok(a)
            }
        }
    }
}
