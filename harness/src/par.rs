//! Deterministic sharding: a fixed number of shards (independent of the core count), each with
//! its own ChaCha stream derived from (VERIF_SEED, property id, shard index); shards run on a
//! rayon pool and are merged in index order, so the explored set is a function of code + seed.

use crate::evidence::{Ev, Violation};
use proptest::strategy::{Strategy, ValueTree};
use proptest::test_runner::{Config, RngAlgorithm, TestCaseError, TestError, TestRng, TestRunner};
use rayon::prelude::*;
use std::cell::{Cell, RefCell};

pub fn init_pool() {
    let _ = rayon::ThreadPoolBuilder::new().stack_size(64 << 20).build_global();
}

pub fn rng_for(seed: u64, id: &str, shard: u64) -> TestRng {
    let mut bytes = [0u8; 32];
    bytes[..8].copy_from_slice(&seed.to_le_bytes());
    bytes[8..16].copy_from_slice(&shard.to_le_bytes());
    let idb = id.as_bytes();
    for (i, b) in idb.iter().enumerate().take(16) {
        bytes[16 + i] = *b;
    }
    TestRng::from_seed(RngAlgorithm::ChaCha, &bytes)
}

pub fn run_shards<F>(id: &'static str, n: usize, f: F) -> Ev
where
    F: Fn(usize) -> Ev + Sync + Send,
{
    let parts: Vec<Ev> = (0..n).into_par_iter().map(|i| f(i)).collect();
    let mut total = Ev::new(id);
    for p in parts {
        total.merge(p);
    }
    total
}

/// Run `cases` generated values of `strategy` through `test` in one shard, shrinking the first
/// failure.  `test` returns Err(violation) for a property violation that is *not* a listed
/// known finding (known ones are recorded in the Ev by the test itself and return Ok).
pub fn prop_shard<S, F>(id: &'static str, seed: u64, shard: usize, cases: u32, strategy: &S, test: F) -> Ev
where
    S: Strategy,
    S::Value: Clone + std::fmt::Debug,
    F: Fn(&S::Value, &mut Ev) -> Result<(), Violation>,
{
    let cfg = Config {
        cases,
        failure_persistence: None,
        max_shrink_iters: 4000,
        max_global_rejects: 65536,
        max_local_rejects: 65536,
        verbose: 0,
        ..Config::default()
    };
    let mut runner = TestRunner::new_with_rng(cfg, rng_for(seed, id, shard as u64));
    let ev = RefCell::new(Ev::new(id));
    let failed = Cell::new(false);
    let last: RefCell<Option<Violation>> = RefCell::new(None);
    let res = runner.run(strategy, |v| {
        let r = if failed.get() {
            let mut scratch = Ev::new(id);
            test(&v, &mut scratch)
        } else {
            test(&v, &mut ev.borrow_mut())
        };
        match r {
            Ok(()) => Ok(()),
            Err(viol) => {
                failed.set(true);
                let sig = viol.sig.clone();
                *last.borrow_mut() = Some(viol);
                Err(TestCaseError::fail(sig))
            }
        }
    });
    let mut ev = ev.into_inner();
    match res {
        Ok(()) => {}
        Err(TestError::Fail(_, value)) => {
            let mut scratch = Ev::new(id);
            match test(&value, &mut scratch) {
                Err(v) => ev.violation(v),
                Ok(()) => {
                    if let Some(v) = last.into_inner() {
                        ev.violation(v)
                    }
                }
            }
        }
        Err(TestError::Abort(reason)) => {
            ev.class(&format!("proptest-abort:{}", reason));
        }
    }
    ev
}

/// Draw one value from a strategy with a given rng-backed runner (no shrinking).
pub fn draw<S: Strategy>(runner: &mut TestRunner, s: &S) -> S::Value {
    s.new_tree(runner).expect("strategy").current()
}

pub fn plain_runner(seed: u64, id: &str, shard: u64) -> TestRunner {
    let cfg = Config { failure_persistence: None, ..Config::default() };
    TestRunner::new_with_rng(cfg, rng_for(seed, id, shard))
}
