//! Generator-side abstract syntax of the assembler language subset the properties talk about.
//! The reference model (`model.rs`) evaluates these trees directly; the renderer (`render.rs`)
//! turns them into text under a generated `Style`.  Nothing here parses text.

pub use crate::isa::{PMode, Ptr};

#[derive(Clone, Copy, Debug, PartialEq, Eq, Hash, PartialOrd, Ord)]
pub enum UnOp {
    Neg,
    Not, // !  logical
    Inv, // ~  bitwise complement
}

#[derive(Clone, Copy, Debug, PartialEq, Eq, Hash, PartialOrd, Ord)]
pub enum BinOp {
    Mul,
    Div,
    Rem,
    Add,
    Sub,
    Shl,
    Shr,
    Lt,
    Le,
    Gt,
    Ge,
    Eq,
    Ne,
    And,
    Xor,
    Or,
    LAnd,
    LOr,
}

pub const ALL_BINOPS: &[BinOp] = &[
    BinOp::Mul,
    BinOp::Div,
    BinOp::Rem,
    BinOp::Add,
    BinOp::Sub,
    BinOp::Shl,
    BinOp::Shr,
    BinOp::Lt,
    BinOp::Le,
    BinOp::Gt,
    BinOp::Ge,
    BinOp::Eq,
    BinOp::Ne,
    BinOp::And,
    BinOp::Xor,
    BinOp::Or,
    BinOp::LAnd,
    BinOp::LOr,
];

impl BinOp {
    /// Binding strength from the AVR assembler operator table (higher binds tighter).
    pub fn prec(self) -> u8 {
        use BinOp::*;
        match self {
            Mul | Div | Rem => 13,
            Add | Sub => 12,
            Shl | Shr => 11,
            Lt | Le | Gt | Ge => 10,
            Eq | Ne => 9,
            And => 8,
            Xor => 7,
            Or => 6,
            LAnd => 5,
            LOr => 4,
        }
    }
    pub fn text(self) -> &'static str {
        use BinOp::*;
        match self {
            Mul => "*",
            Div => "/",
            Rem => "%",
            Add => "+",
            Sub => "-",
            Shl => "<<",
            Shr => ">>",
            Lt => "<",
            Le => "<=",
            Gt => ">",
            Ge => ">=",
            Eq => "==",
            Ne => "!=",
            And => "&",
            Xor => "^",
            Or => "|",
            LAnd => "&&",
            LOr => "||",
        }
    }
}

impl UnOp {
    pub fn text(self) -> &'static str {
        match self {
            UnOp::Neg => "-",
            UnOp::Not => "!",
            UnOp::Inv => "~",
        }
    }
}

#[derive(Clone, Copy, Debug, PartialEq, Eq, Hash, PartialOrd, Ord)]
pub enum Func {
    Low,
    High,
    Byte2,
    Byte3,
    Byte4,
    Lwrd,
    Hwrd,
    Exp2,
}

pub const ALL_FUNCS: &[Func] = &[Func::Low, Func::High, Func::Byte2, Func::Byte3, Func::Byte4, Func::Lwrd, Func::Hwrd, Func::Exp2];

impl Func {
    pub fn text(self) -> &'static str {
        match self {
            Func::Low => "low",
            Func::High => "high",
            Func::Byte2 => "byte2",
            Func::Byte3 => "byte3",
            Func::Byte4 => "byte4",
            Func::Lwrd => "lwrd",
            Func::Hwrd => "hwrd",
            Func::Exp2 => "exp2",
        }
    }
}

#[derive(Clone, Debug, PartialEq, Eq, Hash)]
pub enum E {
    /// non-negative integer literal
    Num(i64),
    /// character literal 'c' (single byte, printable ASCII without ')
    Chr(u8),
    /// reference to a symbol (label, .equ, .set)
    Sym(String),
    /// the location counter
    Pc,
    /// macro parameter @n
    Arg(u8),
    Un(UnOp, Box<E>),
    Bin(BinOp, Box<E>, Box<E>),
    Fn(Func, Box<E>),
    /// explicit (possibly redundant) parentheses written by the user
    Par(Box<E>),
    /// a number literal that does not fit 64 bits, spelled out (must be rejected)
    Big(String),
    /// the name of a `.define` flag (case-sensitive: never re-spelled by the renderer)
    Flag(String),
}

impl E {
    pub fn num(v: i64) -> E {
        if v >= 0 {
            E::Num(v)
        } else if v == i64::MIN {
            // -9223372036854775807-1
            E::Bin(BinOp::Sub, Box::new(E::Un(UnOp::Neg, Box::new(E::Num(i64::MAX)))), Box::new(E::Num(1)))
        } else {
            E::Un(UnOp::Neg, Box::new(E::Num(-v)))
        }
    }
    pub fn sym(s: &str) -> E {
        E::Sym(s.to_string())
    }
    pub fn bin(op: BinOp, a: E, b: E) -> E {
        E::Bin(op, Box::new(a), Box::new(b))
    }
    pub fn un(op: UnOp, a: E) -> E {
        E::Un(op, Box::new(a))
    }
    pub fn depth(&self) -> usize {
        match self {
            E::Un(_, a) | E::Fn(_, a) | E::Par(a) => 1 + a.depth(),
            E::Bin(_, a, b) => 1 + a.depth().max(b.depth()),
            _ => 0,
        }
    }
    pub fn is_atom(&self) -> bool {
        matches!(self, E::Num(_) | E::Chr(_) | E::Sym(_) | E::Pc | E::Arg(_) | E::Fn(_, _) | E::Par(_) | E::Big(_) | E::Flag(_))
    }
    pub fn visit<'a>(&'a self, f: &mut dyn FnMut(&'a E)) {
        f(self);
        match self {
            E::Un(_, a) | E::Fn(_, a) | E::Par(a) => a.visit(f),
            E::Bin(_, a, b) => {
                a.visit(f);
                b.visit(f)
            }
            _ => {}
        }
    }
    /// Replace macro parameters by argument expressions (AST substitution: the sub-tree takes the
    /// parameter's place, so the caller's grouping is inherent).
    pub fn subst(&self, args: &[Opnd]) -> Result<E, String> {
        Ok(match self {
            E::Arg(n) => match args.get(*n as usize) {
                Some(Opnd::Ex(e)) => E::Par(Box::new(e.clone())),
                Some(o) => return Err(format!("macro parameter @{} used inside an expression but the argument is {:?}", n, o)),
                // not supplied: stays unexpanded; it is an error only if the line is assembled
                None => E::Arg(*n),
            },
            E::Sym(s) if s.contains('@') => {
                // reference to a label whose name is built from a numeric parameter (`v@0`)
                let mut out = s.clone();
                for n in (0..10usize).rev() {
                    let pat = format!("@{}", n);
                    if out.contains(&pat) {
                        match args.get(n) {
                            Some(Opnd::Ex(E::Num(v))) => out = out.replace(&pat, &v.to_string()),
                            None => {}
                            other => return Err(format!("label parameter @{} needs a plain number, got {:?}", n, other)),
                        }
                    }
                }
                E::Sym(out)
            }
            E::Un(o, a) => E::Un(*o, Box::new(a.subst(args)?)),
            E::Fn(o, a) => E::Fn(*o, Box::new(a.subst(args)?)),
            E::Par(a) => E::Par(Box::new(a.subst(args)?)),
            E::Bin(o, a, b) => E::Bin(*o, Box::new(a.subst(args)?), Box::new(b.subst(args)?)),
            other => other.clone(),
        })
    }
}

#[derive(Clone, Debug, PartialEq, Eq, Hash)]
pub enum Opnd {
    Reg(u8),
    /// `.def` alias used in a register position
    Alias(String),
    Ptr(Ptr, PMode),
    PtrQ(Ptr, E),
    Ex(E),
    /// macro parameter standing for a whole operand (register, pointer form or expression)
    Arg(u8),
}

impl Opnd {
    pub fn subst(&self, args: &[Opnd]) -> Result<Opnd, String> {
        Ok(match self {
            Opnd::Arg(n) => args.get(*n as usize).cloned().unwrap_or(Opnd::Arg(*n)),
            Opnd::PtrQ(p, e) => Opnd::PtrQ(*p, e.subst(args)?),
            Opnd::Ex(e) => match e {
                // `@n` alone as an expression operand may also receive a register or pointer form
                E::Arg(n) => args.get(*n as usize).cloned().unwrap_or(Opnd::Ex(E::Arg(*n))),
                _ => Opnd::Ex(e.subst(args)?),
            },
            o => o.clone(),
        })
    }
}

#[derive(Clone, Copy, Debug, PartialEq, Eq, Hash, PartialOrd, Ord)]
pub enum DKind {
    Db,
    Dw,
    Dd,
    Dq,
}

impl DKind {
    pub fn width(self) -> usize {
        match self {
            DKind::Db => 1,
            DKind::Dw => 2,
            DKind::Dd => 4,
            DKind::Dq => 8,
        }
    }
    pub fn text(self) -> &'static str {
        match self {
            DKind::Db => ".db",
            DKind::Dw => ".dw",
            DKind::Dd => ".dd",
            DKind::Dq => ".dq",
        }
    }
}

#[derive(Clone, Debug, PartialEq, Eq, Hash)]
pub enum DItem {
    Ex(E),
    Str(String),
}

#[derive(Clone, Copy, Debug, PartialEq, Eq, Hash, PartialOrd, Ord)]
pub enum Seg {
    Code,
    Data,
    Eeprom,
}

impl Seg {
    pub fn directive(self) -> &'static str {
        match self {
            Seg::Code => ".cseg",
            Seg::Data => ".dseg",
            Seg::Eeprom => ".eseg",
        }
    }
}

#[derive(Clone, Copy, Debug, PartialEq, Eq, Hash, PartialOrd, Ord)]
pub enum MsgKind {
    Message,
    Warning,
    Error,
}

impl MsgKind {
    pub fn directive(self) -> &'static str {
        match self {
            MsgKind::Message => ".message",
            MsgKind::Warning => ".warning",
            MsgKind::Error => ".error",
        }
    }
    pub fn prefix(self) -> &'static str {
        match self {
            MsgKind::Message => "info",
            MsgKind::Warning => "warning",
            MsgKind::Error => "error",
        }
    }
}

#[derive(Clone, Debug, PartialEq, Eq, Hash)]
pub enum Cond {
    Expr(E),
    Ifdef(String),
    Ifndef(String),
}

#[derive(Clone, Debug, PartialEq, Eq, Hash)]
pub enum St {
    Ins(String, Vec<Opnd>),
    Data(DKind, Vec<DItem>),
    Byte(E),
    Org(E),
    Seg(Seg),
    Equ(String, E),
    Set(String, E),
    Def(String, u8),
    Undef(String),
    Device(String),
    Define(String),
    Msg(MsgKind, String),
    /// arms (first is .if/.ifdef/.ifndef, the rest .elif — only `Cond::Expr` allowed there), else
    If(Vec<(Cond, Vec<Ln>)>, Option<Vec<Ln>>),
    MacroDef(String, Vec<Ln>),
    Call(String, Vec<Opnd>),
    Exit,
    /// text that is assembled verbatim (poison in unselected branches, injected faults)
    Raw(String),
}

#[derive(Clone, Debug, PartialEq, Eq, Hash)]
pub struct Ln {
    /// label text; inside macro bodies it may contain `@n` (replaced by the decimal text of a numeric argument)
    pub label: Option<String>,
    pub st: Option<St>,
}

impl Ln {
    pub fn st(s: St) -> Ln {
        Ln { label: None, st: Some(s) }
    }
    pub fn label(l: &str) -> Ln {
        Ln { label: Some(l.to_string()), st: None }
    }
    pub fn with_label(l: &str, s: St) -> Ln {
        Ln { label: Some(l.to_string()), st: Some(s) }
    }
    pub fn blank() -> Ln {
        Ln { label: None, st: None }
    }
}

/// Number of pre-order line ids a block occupies (every Ln is one id; nested bodies follow).
pub fn count_ids(lines: &[Ln]) -> usize {
    let mut n = 0;
    for l in lines {
        n += 1;
        match &l.st {
            Some(St::If(arms, els)) => {
                for (_, b) in arms {
                    n += count_ids(b);
                }
                if let Some(b) = els {
                    n += count_ids(b);
                }
            }
            Some(St::MacroDef(_, b)) => n += count_ids(b),
            _ => {}
        }
    }
    n
}
