//! avra-verif library: oracles, generators and per-property checks (see /verif/DESIGN.md).

pub mod ast;
pub mod decode;
pub mod evidence;
pub mod gen;
pub mod ihex;
pub mod model;
pub mod render;
pub mod isa;
pub mod oracle;
pub mod par;
pub mod pool;
pub mod props;
pub mod run;

pub mod fuzz;

pub struct Ctx {
    pub thorough: bool,
    pub seed: u64,
    pub known: evidence::KnownFindings,
}

