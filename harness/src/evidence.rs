//! Counters, classification, samples, violations, known-finding matching and the evidence file.

use serde_json::{json, Map, Value};
use std::collections::{BTreeMap, BTreeSet, HashSet};
use std::hash::{Hash, Hasher};
use std::path::PathBuf;
use std::time::Instant;

use crate::run::verif_root;

pub fn fp<T: Hash>(t: &T) -> u64 {
    // SipHash with fixed keys: deterministic across runs (DefaultHasher::new() is fixed-key).
    let mut h = std::collections::hash_map::DefaultHasher::new();
    t.hash(&mut h);
    h.finish()
}

#[derive(Clone, Debug)]
pub struct Violation {
    /// semantic signature (input class + outcome kind), matched against KNOWN_FINDINGS.txt
    pub sig: String,
    /// human readable description of what failed
    pub what: String,
    /// self-contained replay case (a serialised `oracle::Check` plus context)
    pub replay: Value,
}

pub struct Ev {
    pub id: &'static str,
    pub evaluations: u64,
    pub nontrivial: HashSet<u64>,
    pub classes: BTreeMap<String, u64>,
    pub samples: Vec<Value>,
    pub sample_cap: usize,
    pub violations: BTreeMap<String, (Violation, u64)>,
    pub discarded: u64,
    pub extra: Map<String, Value>,
}

impl Ev {
    pub fn new(id: &'static str) -> Self {
        Ev {
            id,
            evaluations: 0,
            nontrivial: HashSet::new(),
            classes: BTreeMap::new(),
            samples: vec![],
            sample_cap: 4,
            violations: BTreeMap::new(),
            discarded: 0,
            extra: Map::new(),
        }
    }
    pub fn eval(&mut self) {
        self.evaluations += 1;
    }
    pub fn evals(&mut self, n: u64) {
        self.evaluations += n;
    }
    pub fn nt(&mut self, fingerprint: u64) {
        self.nontrivial.insert(fingerprint);
    }
    pub fn class(&mut self, c: &str) {
        *self.classes.entry(c.to_string()).or_insert(0) += 1;
    }
    pub fn class_n(&mut self, c: &str, n: u64) {
        *self.classes.entry(c.to_string()).or_insert(0) += n;
    }
    pub fn sample(&mut self, v: impl FnOnce() -> Value) {
        if self.samples.len() < self.sample_cap {
            self.samples.push(v());
        }
    }
    pub fn violation(&mut self, v: Violation) {
        let e = self.violations.entry(v.sig.clone()).or_insert((v, 0));
        e.1 += 1;
    }
    pub fn has_violation(&self) -> bool {
        !self.violations.is_empty()
    }
    /// Merge a shard into the total; shards are merged in index order so the result is deterministic.
    pub fn merge(&mut self, o: Ev) {
        self.evaluations += o.evaluations;
        self.nontrivial.extend(o.nontrivial);
        for (k, v) in o.classes {
            *self.classes.entry(k).or_insert(0) += v;
        }
        self.discarded += o.discarded;
        for (k, (v, n)) in o.violations {
            let e = self.violations.entry(k).or_insert((v, 0));
            e.1 += n;
        }
        self.samples.extend(o.samples);
        for (k, v) in o.extra {
            match (self.extra.get_mut(&k), &v) {
                (Some(Value::Number(a)), Value::Number(b)) => {
                    let s = a.as_u64().unwrap_or(0) + b.as_u64().unwrap_or(0);
                    self.extra.insert(k, json!(s));
                }
                _ => {
                    self.extra.insert(k, v);
                }
            }
        }
    }
}

pub struct KnownFindings {
    /// (property, sig) -> description
    pub open: BTreeMap<(String, String), String>,
}

impl KnownFindings {
    pub fn load() -> Self {
        let path = verif_root().join("KNOWN_FINDINGS.txt");
        let mut open = BTreeMap::new();
        if let Ok(text) = std::fs::read_to_string(path) {
            for line in text.lines() {
                let line = line.trim();
                if let Some(rest) = line.strip_prefix("open:") {
                    // open: property=C11 sig=<sig> :: <what>
                    let (head, what) = match rest.split_once("::") {
                        Some((h, w)) => (h.trim(), w.trim()),
                        None => (rest.trim(), ""),
                    };
                    let mut prop = String::new();
                    let mut sig = String::new();
                    for tok in head.split_whitespace() {
                        if let Some(p) = tok.strip_prefix("property=") {
                            prop = p.to_string();
                        } else if let Some(s) = tok.strip_prefix("sig=") {
                            sig = s.to_string();
                        }
                    }
                    if !prop.is_empty() && !sig.is_empty() {
                        open.insert((prop, sig), what.to_string());
                    }
                }
            }
        }
        KnownFindings { open }
    }
    pub fn is_open(&self, prop: &str, sig: &str) -> bool {
        self.open.contains_key(&(prop.to_string(), sig.to_string()))
    }
    pub fn open_sigs(&self, prop: &str) -> BTreeSet<String> {
        self.open
            .keys()
            .filter(|(p, _)| p == prop)
            .map(|(_, s)| s.clone())
            .collect()
    }
}

fn sanitize(s: &str) -> String {
    let mut out: String = s
        .chars()
        .map(|c| if c.is_ascii_alphanumeric() || c == '-' || c == '_' || c == '.' { c } else { '_' })
        .collect();
    if out.len() > 80 {
        out.truncate(80);
        out.push_str(&format!("_{:08x}", fp(&s) as u32));
    }
    out
}

pub struct RunInfo {
    pub tier: String,
    pub seed: u64,
    pub start: Instant,
    pub rule: String,
    pub exhaustive: Option<bool>,
    pub assumptions: Vec<String>,
}

/// Writes replays, prints VIOLATION / KNOWN-FINDING lines, writes the evidence file.
/// Returns the process exit code (0 or 1).
pub fn finish(mut ev: Ev, info: RunInfo) -> i32 {
    let kf = KnownFindings::load();
    let root = verif_root();
    let replays = root.join("replays");
    let _ = std::fs::create_dir_all(&replays);
    let mut new_violations = 0u64;
    let mut known_matched: Vec<String> = vec![];
    let mut viol_list = vec![];
    for (sig, (v, n)) in ev.violations.iter() {
        if kf.is_open(ev.id, sig) {
            println!("KNOWN-FINDING: property={} {} [sig={}] ({} cases)", ev.id, kf.open[&(ev.id.to_string(), sig.clone())], sig, n);
            known_matched.push(sig.clone());
        } else {
            new_violations += 1;
            let path: PathBuf = replays.join(format!("{}-{}.json", ev.id, sanitize(sig)));
            let body = json!({
                "property": ev.id,
                "sig": sig,
                "what": v.what,
                "cases_with_this_signature": n,
                "case": v.replay,
            });
            let _ = std::fs::write(&path, serde_json::to_string_pretty(&body).unwrap());
            println!("VIOLATION property={} replay={}", ev.id, path.display());
            println!("  sig={}  {}", sig, crate::run::truncate(&v.what, 400));
            viol_list.push(json!({"sig": sig, "what": v.what, "count": n, "replay": path.display().to_string()}));
        }
    }
    // keep the samples list bounded but representative: first few + last few
    if ev.samples.len() > 16 {
        let n = ev.samples.len();
        let mut keep: Vec<Value> = ev.samples[..8].to_vec();
        let step = (n - 8) / 8;
        for i in 0..8 {
            keep.push(ev.samples[8 + i * step.max(1)].clone());
        }
        ev.samples = keep;
    }
    let mut coverage = Map::new();
    coverage.insert("evaluations".into(), json!(ev.evaluations));
    coverage.insert("distinct_nontrivial".into(), json!(ev.nontrivial.len() as u64));
    coverage.insert("rule".into(), json!(info.rule));
    coverage.insert("samples".into(), Value::Array(ev.samples.clone()));
    coverage.insert("classes".into(), json!(ev.classes));
    coverage.insert("discarded".into(), json!(ev.discarded));
    if let Some(e) = info.exhaustive {
        coverage.insert("exhaustive".into(), json!(e));
    }
    coverage.insert("known_findings_matched".into(), json!(known_matched));
    coverage.insert("violation_details".into(), Value::Array(viol_list));
    for (k, v) in ev.extra.iter() {
        coverage.insert(k.clone(), v.clone());
    }
    let evidence = json!({
        "property_id": ev.id,
        "tier": info.tier,
        "seed": info.seed,
        "level": "exploration",
        "coverage": coverage,
        "assumptions": info.assumptions,
        "wall_s": (info.start.elapsed().as_millis() as f64) / 1000.0,
        "violations": new_violations,
    });
    let evdir = root.join("evidence");
    let _ = std::fs::create_dir_all(&evdir);
    let _ = std::fs::write(
        evdir.join(format!("{}.json", ev.id)),
        serde_json::to_string_pretty(&evidence).unwrap(),
    );
    println!(
        "{} {}: evaluations={} distinct_nontrivial={} violations={} known={} wall={:.1}s",
        ev.id,
        info.tier,
        ev.evaluations,
        ev.nontrivial.len(),
        new_violations,
        known_matched.len(),
        info.start.elapsed().as_secs_f64()
    );
    if new_violations > 0 {
        1
    } else {
        0
    }
}

pub const COMMON_ASSUMPTIONS: &[&str] = &[
    "avra_lib is built from a checksum snapshot of /repo's working tree with opt-level=2, overflow-checks=on, debug-assertions=on (an arithmetic overflow inside the library is a visible panic)",
    "the reference oracles (harness/src/isa.rs, model.rs, ihex.rs) are independent re-implementations from the AVR instruction set manual / assembler documentation; they are tied to the repository by the encodings its own tests pin",
    "sampling, not proof: absence is only claimed for sub-spaces flagged exhaustive",
];
