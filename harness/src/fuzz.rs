//! Glue for coverage-guided fuzzing (cargo-fuzz / libFuzzer, thorough tiers).
//!
//! Structured targets decode the fuzzer's bytes into the *same* recipe values the proptest checks
//! generate (`decode.rs`, a bounded byte-cursor decoder), so libFuzzer mutates generator decisions
//! and the property's own oracle runs inside the target.
//! `fuzz_one` is also what `avra-verif fuzzreplay` calls, so an artifact is re-judged on the
//! deterministic path without any fuzzing engine.

use crate::evidence::{Ev, KnownFindings, Violation};
use crate::model::{self, ModelOpts};
use crate::props::{c02, c03, c05, c06, c08, c09, c10, c14};
use crate::run::{build, Outcome};
use crate::decode::{self, Cur};
use crate::isa::{self, Core, Verdict};
use crate::oracle::Check;
use std::sync::OnceLock;

pub const TARGETS: &[(&str, &str)] =
    &[("raw", "C16"), ("expr", "C05"), ("style", "C14"), ("layout", "C02"), ("rel", "C03"), ("data", "C06"), ("cond", "C08"), ("macro", "C09"), ("syms", "C10"), ("instr", "C04"), ("gate", "C13")];

pub fn property_of(target: &str) -> Option<&'static str> {
    TARGETS.iter().find(|(t, _)| *t == target).map(|(_, p)| *p)
}

static KNOWN: OnceLock<KnownFindings> = OnceLock::new();
static DEVICES: OnceLock<Vec<model::DeviceInfo>> = OnceLock::new();

fn judge(prop: &str, r: Result<(), Violation>) -> Result<(), Violation> {
    match r {
        Err(v) if KNOWN.get_or_init(KnownFindings::load).is_open(prop, &v.sig) => Ok(()),
        other => other,
    }
}

/// One fuzz iteration.  Err(violation) = the property is violated on the decoded case.
pub fn fuzz_one(target: &str, data: &[u8]) -> Result<(), Violation> {
    let devices = DEVICES.get_or_init(model::model_devices);
    let mut ev = Ev::new("FUZZ");
    match target {
        "raw" => {
            let src = String::from_utf8_lossy(data).to_string();
            match build(&src) {
                Outcome::Panic(p) => judge("C16", Err(Violation { sig: format!("c16:fuzz:panic:{}", crate::props::c16::outcome_sig(&crate::pool::WOutcome::Panic(p.clone()))), what: format!("panic: {}", p), replay: serde_json::json!({"kind": "isolated_no_crash", "src": src}) })),
                _ => Ok(()),
            }
        }
        "expr" => {
            let c = decode::tree_case(&mut Cur::new(data));
            judge("C05", c05::test_tree(&c, &mut ev, &ModelOpts { devices: vec![] }))
        }
        "style" => {
            let c = decode::pair(&mut Cur::new(data));
            judge("C14", c14::test(&c, &mut ev, devices))
        }
        "layout" => {
            let c = decode::raw_prog(&mut Cur::new(data));
            judge("C02", c02::test(&c, &mut ev, &ModelOpts { devices: devices.clone() }, data.last().map(|b| b & 1 == 1).unwrap_or(false)))
        }
        "rel" => {
            let c = decode::rel_case(&mut Cur::new(data));
            judge("C03", c03::test(&c, &mut ev, &ModelOpts { devices: devices.clone() }))
        }
        "data" => {
            let c = decode::raw_data(&mut Cur::new(data));
            judge("C06", c06::test(&c, &mut ev, &ModelOpts { devices: vec![] }))
        }
        "cond" => {
            let c = decode::raw_case(&mut Cur::new(data));
            judge("C08", c08::test(&c, &mut ev, &ModelOpts { devices: devices.clone() }))
        }
        "macro" => {
            let c = decode::raw_macros(&mut Cur::new(data));
            judge("C09", c09::test(&c, &mut ev, &ModelOpts { devices: vec![] }))
        }
        "syms" => {
            let c = decode::raw_syms(&mut Cur::new(data));
            judge("C10", c10::test(&c, &mut ev, &ModelOpts { devices: vec![] }))
        }
        "instr" => judge("C04", instr_c04(&decode::instr_case(&mut Cur::new(data))).1),
        "gate" => judge("C13", instr_c13(&decode::instr_case(&mut Cur::new(data))).map(|x| x.1).unwrap_or(Ok(()))),
        _ => Ok(()),
    }
}

/// C04 on a free-form instruction: default core, and (lds/sts only, as in the enumerated leg) a reduced core.
pub fn instr_c04(c: &decode::InstrCase) -> (&'static str, Result<(), Violation>) {
    let reduced = (c.m == "lds" || c.m == "sts") && c.dev & 1 == 1;
    let core = if reduced { Core::Avr8l } else { Core::Full };
    let src = c.source(if reduced { Some("ATtiny20") } else { None });
    let verdict = isa::assemble(&c.m, &c.ops, core, c.pc as i64);
    instr_verdict(c, &src, verdict, "c04:free")
}

/// C13 on a free-form instruction under a device of the tool's table; None = operands the ISA cannot
/// encode at all (C04's business).
pub fn instr_c13(c: &decode::InstrCase) -> Option<(&'static str, Result<(), Violation>)> {
    static DEVS: OnceLock<Vec<crate::props::c13::Dev>> = OnceLock::new();
    let devs = DEVS.get_or_init(crate::props::c13::devices);
    if devs.is_empty() {
        return None;
    }
    let dev = &devs[c.dev as usize % devs.len()];
    let core = if dev.flags.iter().any(|f| f == "Avr8l") { Core::Avr8l } else { Core::Full };
    let src = c.source(Some(&dev.name));
    let gated = isa::gate(&dev.flags, &c.m, &c.ops);
    let verdict = match isa::assemble(&c.m, &c.ops, core, c.pc as i64) {
        Verdict::Illegal => return None,
        _ if gated => Verdict::Illegal,
        v => v,
    };
    let (class, r) = instr_verdict(c, &src, verdict, &format!("c13:free:{}", isa::gate_reason(&dev.flags, &c.m, &c.ops)));
    Some((if gated { "gated" } else { class }, r))
}

fn instr_verdict(c: &decode::InstrCase, src: &str, verdict: Verdict, head: &str) -> (&'static str, Result<(), Violation>) {
    let bytes = |w: &[u16]| -> Vec<u8> {
        let mut b = vec![0u8; 2 * c.pc as usize];
        b.extend(w.iter().flat_map(|x| [(*x & 0xff) as u8, (*x >> 8) as u8]));
        b
    };
    let (chk, class) = match &verdict {
        Verdict::Legal(w) => (Check::image_code(src.to_string(), bytes(w)), "legal"),
        Verdict::Either(w) => (Check::FailOrImage { src: src.to_string(), code: bytes(w) }, "convention-dependent"),
        Verdict::Illegal => (Check::MustFail { src: src.to_string(), token: None }, "illegal"),
    };
    let r = match chk.eval() {
        Ok(()) => Ok(()),
        Err(e) => {
            let outcome = if e.contains("anic") { "panic" } else if class == "illegal" { "accepted" } else if e.contains("Err(") { "legal-rejected" } else { "misencoded" };
            Err(Violation { sig: format!("{}:{}:{}", head, c.m, outcome), what: format!("`{}` ({}): {}", src.replace('\n', " | "), class, e), replay: chk.to_json() })
        }
    };
    (class, r)
}

/// Entry used by the libFuzzer targets: abort (→ artifact) on a violation.
pub fn fuzz_entry(target: &str, data: &[u8]) {
    crate::run::install_hook();
    if let Err(v) = fuzz_one(target, data) {
        eprintln!("FUZZ-VIOLATION target={} sig={} {}", target, v.sig, crate::run::truncate(&v.what, 400));
        std::process::abort();
    }
}
