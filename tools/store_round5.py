#!/usr/bin/env python3
"""Stores the fifth round of independently seeded changes under seeded/<P>-r5-<n>/.

Input: /tmp/seed5/out-<P>/m<n>/{patch.diff, demo.rs|demo.sh, meta.json} as written by the
sub-agents, and the evaluation transcripts of tools/eval_mutant.sh:
  /tmp/seed5/eval-<P>-m<n>.txt    the property's own check as it stood when the change was made
  /tmp/seed5/evalx-<P>-m<n>.txt   checks of neighbouring properties as they stood
  /tmp/seed5/eval3-<P>-m<n>.txt   after strengthening (and after re-basing where /repo moved on)
  /tmp/seed5/eval4-<P>-m<n>.txt   later re-runs
"""
import json, os, re, shutil, sys

SRC = os.environ.get("SEED_SRC", "/tmp/seed5")
ROUND = os.environ.get("SEED_ROUND", "5")
DST = os.path.join(os.path.dirname(os.path.dirname(os.path.abspath(__file__))), "seeded")

# what was added to the checks for the changes that were missed at first (general dimensions, not copies of the input)
HISTORY = {
    "C01-m1": "missed by C01 at first (detected by C13 and C03 as they stood: a device-dependent rjmp/rcall); the C01 context leg now rotates over ten devices including the smallest flashes",
    "C01-m2": "missed by C01 at first (detected by C03 as it stood); the C01 context leg now puts every form directly behind data in flash (.db odd, .dd, .dq, string)",
    "C04-m1": "a device-dependent range of rjmp/rcall: detected by C03 (reach of relative jumps under devices) as it stood; C04's own windows do not vary the device beyond the reduced cores",
    "C05-m1": "missed at first; C05 gained the many-evaluated-nodes leg (tables of thousands of sums, costly symbols used many times); patch re-created on the repaired tree (c03ef5d introduced a build-wide budget: the change now makes it as small as the per-expression one)",
    "C06-m1": "missed at first; C06 judges the many-evaluated-nodes leg byte for byte (costly symbols several times on one data line); patch re-based after c03ef5d",
    "C07-m2": "missed at first; C07 results now report varying capacities (any row of the device table) and an end-to-end leg assembles images across 64 KiB boundaries for every large device",
    "C08-m1": "missed at first; every third C08 program defines a macro in front of the constructs and calls it between and behind them",
    "C08-m2": "missed by C08 (needs build_file); detected by C11's spanning leg (file ends right after .endif) as it stood",
    "C10-m1": "missed at first; C10's duplicate-label variant also re-defines the label as a bare line directly in front of the first definition (same address)",
    "C11-m1": "missed at first; C11 gained the large-files leg (40 KB .. 2.5 MB, thorough 16 MB)",
    "C13-m2": "missed at first; C13's sequence leg surrounds missing and available forms with the vendor assembler's pragmas; patch re-based after c03ef5d",
    "C14-m1": "missed at first by C14, C09 and C11; C11 trees now use the location counter as an operand (last line of one file and next line of another often share a line number), C09 gained one-line pc bodies called in a row",
    "C15-m1": "missed at first; C15 gained the enumerated leg of messages across segment switches and macro calls",
    "C15-m2": "missed at first; C15 message texts now carry apostrophes, comment characters, brackets and banners of operator characters; patch re-based after 428426d",
    "C16-m2": "missed at first; C16 stress inputs gained deep nesting behind literals (backslash, other quote, comment characters); patch re-based after 428426d",
    "C17-m1": "missed at first; C17 gained the family of several table entries answering one question (3-7 aliases of one register, ...)",
    "C17-m2": "missed at first; C17 gained the family using pc where operands are evaluated while the text is read",
    "C18-m2": "detected by the check as it stood; patch re-based after 42887a4",
}


AUTHOR6 = "independent sub-agent given only the property text and a scratch worktree (asked for one change that depends on state carried from the previous item, line, segment, call, file or build, and one that sits in or next to a protective limit / guard / scanner of the code base or is a small feature with a side effect)"
HISTORY6 = {
    "C08-m2": "missed at first; the renderer's comment texts (all checks that render programs) now include colons, a hash and a dot in front of text (`note: x`, `mode: done`, `# not a directive`)",
    "C14-m2": "missed at first; the renderer's comment texts now include a block-comment opener (`was: /* ldi r16, 2`, `/*`) in ; and // comments",
    "C17-m1": "missed at first; C17 gained family 13 (one macro name called with the same argument texts in every role, another body per role, two roles failing in the middle of the expansion pass)",
    "C15-m1": "detected by the leg added earlier in this session (messages across segment switches and macro calls: a silent call between two messages)",
}


def checks(path):
    out = {}
    if not os.path.exists(path):
        return out
    for line in open(path, errors="replace"):
        m = re.match(r"check (C\d\d)\s+exit=(\d) violations=(\d+)\s*(.*)", line)
        if m:
            out[m.group(1)] = (int(m.group(2)), int(m.group(3)), m.group(4).strip()[:200])
    return out


def facts(path):
    t = open(path, errors="replace").read() if os.path.exists(path) else ""
    return {
        "patch_applies": "applies (" in t,
        "crate_builds": re.search(r"^build\s+ok", t, re.M) is not None,
        "unit_tests": (re.search(r"unit tests\s+test result: (.*?);", t) or [None, "?"])[1],
        "demo_without_patch": "passes" if re.search(r"demo without patch\s+passes", t) else "?",
        "demo_with_patch": "fails" if "fails (as intended)" in t else "?",
    }


def main():
    rows = []
    for p in sorted(os.listdir(SRC)):
        if not p.startswith("out-"):
            continue
        P = p[4:]
        for m in ("m1", "m2"):
            d = os.path.join(SRC, p, m)
            if not os.path.exists(os.path.join(d, "patch.diff")):
                continue
            key = f"{P}-{m}"
            name = f"{P}-r{ROUND}-{m[1]}"
            first = checks(f"{SRC}/eval-{P}-{m}.txt")
            cross = checks(f"{SRC}/evalx-{P}-{m}.txt")
            later = checks(f"{SRC}/eval3-{P}-{m}.txt")
            later.update(checks(f"{SRC}/eval2-{P}-{m}.txt"))
            later.update(checks(f"{SRC}/eval4-{P}-{m}.txt"))
            as_stood = sorted([c for c, v in {**cross, **first}.items() if v[0] == 1 and v[1] > 0])
            now = sorted(set(as_stood) | {c for c, v in later.items() if v[0] == 1 and v[1] > 0})
            own_first = first.get(P, (0, 0, ""))[0] == 1
            agent = json.load(open(os.path.join(d, "meta.json")))
            best = None
            for f in (f"{SRC}/eval4-{P}-{m}.txt", f"{SRC}/eval3-{P}-{m}.txt", f"{SRC}/eval2-{P}-{m}.txt", f"{SRC}/eval-{P}-{m}.txt"):
                if os.path.exists(f) and "applies (" in open(f, errors="replace").read():
                    best = f
                    break
            fx = facts(best or f"{SRC}/eval-{P}-{m}.txt")
            sig = ""
            for src in (later, first, cross):
                for c, v in src.items():
                    if v[0] == 1 and v[2]:
                        sig = f"{c}: {v[2]}"
                        break
                if sig:
                    break
            meta = {
                "property": P,
                "round": int(ROUND),
                "breaks": agent.get("summary", ""),
                "needs_to_manifest": agent.get("needs", ""),
                "files_touched": agent.get("files_touched", []),
                "author": AUTHOR6 if ROUND == "6" else "independent sub-agent given only the property text and a scratch worktree (asked for one change that needs a scale / count threshold, a numeric coincidence or an order of definitions, and one that needs three interacting features, a rarely used directive / option / device or sits at the edge of a recent fix)",
                "what_was_run": {
                    "command": f"tools/eval_mutant.sh seeded/{name} " + " ".join(now or [P]),
                    "on_scratch_worktree_of": "/repo HEAD (never on /repo itself)",
                    **fx,
                    "first_violation_reported": sig,
                },
                "detected_by": now,
                "detected_by_checks_as_they_stood": as_stood,
                "detected_by_own_property_check_as_it_stood": own_first,
                "history": (HISTORY6 if ROUND == "6" else HISTORY).get(key, "detected by the check as it stood when the change was made"),
                "agent_meta": agent,
            }
            out = os.path.join(DST, name)
            os.makedirs(out, exist_ok=True)
            shutil.copy(os.path.join(d, "patch.diff"), os.path.join(out, "patch.diff"))
            for demo in ("demo.rs", "demo.sh"):
                if os.path.exists(os.path.join(d, demo)):
                    shutil.copy(os.path.join(d, demo), os.path.join(out, demo))
            json.dump(meta, open(os.path.join(out, "meta.json"), "w"), indent=1, ensure_ascii=False)
            rows.append((name, agent.get("summary", "")[:150].replace("|", "/").replace("\n", " "), ", ".join(now) or "—", meta["history"]))
    with open(os.path.join(SRC, f"round{ROUND}_table.md"), "w") as f:
        f.write("| seeded change | what it does | detected by | history |\n|---|---|---|---|\n")
        for r in rows:
            f.write("| " + " | ".join(r) + " |\n")
    missed = [r[0] for r in rows if r[2] == "—"]
    print(len(rows), "stored; not detected:", missed)


if __name__ == "__main__":
    main()
