#!/usr/bin/env python3
"""Hand-written single-edit mutants of avra-rs (DESIGN §9 plan).

For each (property, file, old, new): apply the edit to a scratch worktree of /repo, require that
the crate builds and the 67 tests pass (otherwise the mutant is not interesting: the existing
tests already catch it), run the property's quick check against it through VERIF_REPO and record
whether it raised a VIOLATION.  /repo itself is never touched.  Results: tools/own_mutants.json.
"""
import json, os, subprocess, sys, shutil

M = [
 # C01
 ("C01", "src/instruction/operation.rs", "op_code: 0x9402,", "op_code: 0x9403,", "swap base opcode 0x9402 -> 0x9403 (becomes inc)"),
 ("C01", "src/instruction/mod.rs", "opcode |= (k & 0x30) << 5 | k & 0x0f;", "opcode |= (k & 0x30) << 4 | k & 0x0f;", "in/out port field shift 5 -> 4"),
 ("C01", "src/document.rs", '"sbrs" / "sbrc" / "sbr"', '"sbr" / "sbrs" / "sbrc"', "ordered choice: sbr before sbrs/sbrc (mnemonics become unreachable)"),
 ("C01", "src/instruction/mod.rs", "opcode |= ((k & 0x3e0000) >> 13 | (k & 0x010000) >> 16) as u16;", "opcode |= ((k & 0x3e0000) >> 13 | (k & 0x010000) >> 17) as u16;", "jmp/call address bit 16 dropped"),
 # C02
 ("C02", "src/builder/pass1.rs", "DataDefine::Dd => 4,", "DataDefine::Dd => 2,", ".dd sized as 2 bytes in pass 1"),
 ("C02", "src/builder/pass1.rs", "SegmentType::Eeprom => items.actual_len() as u32,", "SegmentType::Eeprom => (items.actual_len() as u32 + 1) / 2 * 2,", "EEPROM .db padded to even like flash (pass 1 only)"),
 ("C02", "src/builder/pass1.rs", "let mut data_offset = device.ram_start;", "let mut data_offset = 0x60;", "data segment always starts at 0x60"),
 # C03
 ("C03", "src/instruction/mod.rs", "if rel < -64 || rel > 63 {", "if rel < -64 || rel > 64 {", "branch upper bound 63 -> 64"),
 ("C03", "src/instruction/mod.rs", "if rel < -2048 || rel > 2047 {", "if rel < -2049 || rel > 2047 {", "rjmp lower bound -2048 -> -2049"),
 # C04
 ("C04", "src/instruction/mod.rs", "if k < 0 || k > 31 {", "if k < 0 || k > 63 {", "sbi/cbi port bound 31 -> 63"),
 ("C04", "src/expr.rs", "if value > 0xFF || value < -128 {", "if value > 0x1FF || value < -128 {", "get_byte upper bound 0xFF -> 0x1FF"),
 # C05
 ("C05", "src/expr.rs", "BinaryOperator::GreaterOrEqual => Ok((left >= right) as i64),", "BinaryOperator::GreaterOrEqual => Ok((left > right) as i64),", ">= evaluated as >"),
 ("C05", "src/expr.rs", '"byte3" => ((value as u64 & 0xff0000) >> 16) as i64,', '"byte3" => ((value as u64 & 0xff0000) >> 8) as i64,', "byte3 shifted by 8"),
 ("C05", "src/expr.rs", "BinaryOperator::Sub => match left.checked_sub(right) {", "BinaryOperator::Sub => match Some(left.wrapping_sub(right)) {", "subtraction wraps instead of failing"),
 # C06
 ("C06", "src/expr.rs", "if value > 0xFFFF || value < -32768 {", "if value > 0x7FFF || value < -32768 {", ".dw upper bound 0xFFFF -> 0x7FFF"),
 ("C06", "src/expr.rs", "LittleEndian::write_u32(&mut result, value as u32);", "byteorder::BigEndian::write_u32(&mut result, value as u32);", ".dd written big-endian"),
 # C07
 ("C07", "src/writer.rs", "for (i, chunk) in segment.chunks(16).enumerate() {\n            let address = i * 16;", "for (i, chunk) in segment.chunks(32).enumerate() {\n            let address = i * 16;", "32-byte chunks with 16-byte address steps"),
 ("C07", "src/writer.rs", 'file_output.write_all(output.eeprom.replace("\\n", "\\r\\n").as_bytes())?;', 'file_output.write_all(output.code.replace("\\n", "\\r\\n").as_bytes())?;', "EEPROM writer writes the code image"),
 # C08
 ("C08", "src/parser.rs", "if directive == Directive::Endif {\n                                            scoup_count -= 1;", "if directive == Directive::Endif && false {\n                                            scoup_count -= 1;", "nesting counter never decremented"),
 ("C08", "src/directive.rs", "if self == &Directive::IfNDef {\n                                next_item = NextItem::EndIf;", "if self == &Directive::IfNDef && false {\n                                next_item = NextItem::EndIf;", ".ifndef of a defined flag is taken"),
 # C09
 ("C09", "src/instruction/mod.rs", 'IndexOps::PreDecrement(r16) => write!(f, "-{}", r16),', 'IndexOps::PreDecrement(r16) => write!(f, "{}-", r16),', "pre-decrement displayed as X-"),
 ("C09", "src/builder/pass0.rs", 'raw_line = raw_line.replace(parameter.as_str(), replacer.as_str());', 'if num < 8 { raw_line = raw_line.replace(parameter.as_str(), replacer.as_str()); }', "only parameters @0..@7 are replaced"),
 # C10
 ("C10", "src/context.rs", "fn get_label(&self, name: &String) -> Option<(SegmentType, u32)> {\n        self.labels\n            .borrow()\n            .get(&name.to_lowercase())", "fn get_label(&self, name: &String) -> Option<(SegmentType, u32)> {\n        self.labels\n            .borrow()\n            .get(name)", "label lookup no longer lower-cases"),
 ("C10", "src/builder/pass1.rs", "if previous.is_some() || common_context.get_equ(name).is_some() {", "if false && (previous.is_some() || common_context.get_equ(name).is_some()) {", "duplicate-label check removed"),
 # C11
 ("C11", "src/parser.rs", "if let None = include_paths.get(parent) {\n            include_paths.insert(parent.to_path_buf());", "if let (None, false) = (include_paths.get(parent), true) {\n            include_paths.insert(parent.to_path_buf());", "an included file's own directory is no longer searched"),
 # C12
 ("C12", "src/builder/mod.rs", "if passed_2.eeprom.len() as u32 > device.eeprom_size {", "if passed_2.eeprom.len() as u32 >= device.eeprom_size + 2 {", "EEPROM check in mod.rs off by one (pass-1 guard still exact)"),
 ("C12", "src/builder/mod.rs", "if passed_2.ram_filling > device.ram_size {", "if passed_2.ram_filling > device.ram_size + 1 {", "RAM check off by one"),
 ("C12", "src/builder/pass1.rs", "if current_end_offset > device.flash_size {", "if current_end_offset >= device.flash_size {", "flash guard > -> >="),
 # C13
 ("C13", "src/device.rs", "Operation::Movw => self.allow(NoMovw),", "Operation::Movw => true,", "movw no longer gated"),
 ("C13", "src/device.rs", "Operation::Adiw | Operation::Sbiw => self.allow(Avr8l),", "Operation::Adiw | Operation::Sbiw => true,", "adiw/sbiw allowed on reduced cores"),
 # C14
 ("C14", "src/document.rs", "= r_name:$(['x' | 'y' | 'z' | 'X' | 'Y' | 'Z'])", "= r_name:$(['x' | 'y' | 'z' | 'X' | 'Y'])", "upper-case Z pointer no longer recognised"),
 ("C14", "src/document.rs", 'rule c_another_comment() = "//" [_]* new_line()', 'rule c_another_comment() = "//" [^ \';\']* new_line()', "// comments may not contain a semicolon"),
 # C15
 ("C15", "src/parser.rs", "let line_num = line_num + 1;", "let line_num = line_num + if line_num > 150 { 2 } else { 1 };", "line numbers off by one beyond line 150"),
 ("C15", "src/builder/pass2.rs", 'Err(e) => bail!("{}, {}", e, line),\n                    };\n                    cur_address += complete_op.len() as u32 / 2;', 'Err(e) => bail!("{}", e),\n                    };\n                    cur_address += complete_op.len() as u32 / 2;', "instruction errors lose their line"),
 # C16
 ("C16", "src/directive.rs", "| Directive::Warning\n                    | Directive::Error => bail!", "| Directive::Warning => bail!", ".error without operand panics again"),
 ("C16", "src/builder/pass0.rs", "if context.macro_depth.get() >= MAX_MACRO_DEPTH {", "if context.macro_depth.get() >= MAX_MACRO_DEPTH && false {", "macro recursion guard disabled"),
 # C18
 ("C18", "src/app/main.rs", 'out_file_name.push(".eep.hex");', 'out_file_name.push(".eep");', "default EEPROM output name without .hex"),
 ("C18", "src/app/main.rs", "if failed {\n        std::process::exit(1);", "if failed && false {\n        std::process::exit(1);", "exit status always 0"),
]

def sh(cmd, **kw):
    return subprocess.run(cmd, shell=True, capture_output=True, text=True, **kw)

def main():
    only = sys.argv[1:]
    wt = "/tmp/ownmut.%d" % os.getpid()
    sh(f"git -C /repo worktree add -q --detach {wt} HEAD")
    os.makedirs(wt + "/target", exist_ok=True)
    sh(f"cp -r /repo/target/debug {wt}/target/")
    results = []
    try:
        for (prop, f, old, new, desc) in M:
            if only and prop not in only:
                continue
            path = os.path.join(wt, f)
            src = open(path).read()
            if src.count(old) != 1:
                results.append({"property": prop, "mutant": desc, "status": "edit does not apply (%d matches)" % src.count(old)})
                print(prop, "| edit does not apply |", desc); continue
            open(path, "w").write(src.replace(old, new))
            t = sh(f"cd {wt} && cargo test --offline 2>&1 | grep -E '^test result|^error' | head -1").stdout.strip()
            if "67 passed; 0 failed" not in t:
                status = "killed by the existing tests / does not build: " + t[:80]
                detected = None
            else:
                r = sh(f"cd /verif && VERIF_REPO={wt} ./check {prop} quick 2>&1")
                n = r.stdout.count("\nVIOLATION") + (1 if r.stdout.startswith("VIOLATION") else 0)
                sig = [l.strip() for l in r.stdout.split("\n") if l.strip().startswith("sig=")][:1]
                detected = r.returncode == 1 and n > 0
                status = ("DETECTED (%d signatures) %s" % (n, sig[0][:120] if sig else "")) if detected else ("MISSED (exit %d)" % r.returncode)
            results.append({"property": prop, "mutant": desc, "file": f, "status": status})
            print(prop, "|", status[:150], "|", desc, flush=True)
            open(path, "w").write(src)
    finally:
        sh(f"git -C /repo worktree remove --force {wt}")
        shutil.rmtree(wt, ignore_errors=True)
    if not only:
        json.dump(results, open("/verif/tools/own_mutants.json", "w"), indent=1)

main()
