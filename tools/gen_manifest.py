#!/usr/bin/env python3
"""Regenerates /verif/MANIFEST.json from the table below (kept in one place so it stays valid)."""
import json, os, sys
ROOT = os.path.dirname(os.path.dirname(os.path.abspath(__file__)))

# id -> (technique, level text, level note, design ref)
CHECKS = {
 "C01": ("bounded-exhaustive enumeration against an independent ISA encoder + decoder round trip",
         "Every legal (mnemonic, operand tuple) of the supported instruction set is assembled by the real library and compared word for word with an independent encoder written from the AVR manual; the independent decoder must map the words back to the canonical form of what was written. Quick enumerates every one-word form, all 2x2^21 lds/sts tuples, the reduced-core lds/sts form and ~400k jmp/call addresses (4.7M cases); thorough adds the full 22-bit jmp/call space (12.7M, exhaustive). Exploration level: absence is claimed only for the enumerated spaces.",
         "Trusts harness/src/isa.rs as a faithful reading of the AVR Instruction Set Manual (tied to the encodings pinned by the repository's own tests by a self-test); operands are written as decimal literals / pc-relative expressions (spelling variation is C14's subject).",
         "DESIGN.md §5 C01"),
}
CHECKS.update({
 "C04": ("bounded-exhaustive negative-space enumeration with a three-way oracle (legal / illegal / convention-dependent) from the independent ISA reference",
         "For every mnemonic each operand position is swept over its whole window (all 32 registers, immediates/ports/bits/displacements/addresses far beyond both ends of the legal range incl. negatives, every pointer form) inside frames for the other positions, plus operand-kind confusions, operand-count confusions, bad register names and the reduced core (~160k single-instruction builds in quick incl. wrap-around twins of legal values modulo 2^8/2^16/2^32, x10 windows in thorough). Tuples the ISA cannot encode must yield an error value (a panic counts as a violation); legal tuples must give the reference words; convention-dependent spellings may do either.",
         "Trusts isa::assemble's legality judgement (AVR manual ranges and register classes). Negative 8-bit immediates -128..-1, `ld r,Y+q`, `ldd r,Y` and `spm Z+` are classified convention-dependent so the check never demands more than the statement.",
         "DESIGN.md §5 C04"),
 "C05": ("operator grid + proptest expression trees against a checked-i64 reference evaluator, minimal-parenthesis rendering",
         "Every binary operator on a 30x30 grid of boundary operands, every unary operator and function on 30 operands, all literal spellings and character literals (22k cases), plus 400k (quick) / 6M (thorough) generated expression trees over literals, .equ symbols defined before/after and labels, rendered with only the parentheses the documented precedence table requires and observed through `.dq`. Values must match the reference; division/remainder by zero, arithmetic overflow and out-of-range shift counts must fail the build.",
         "Reference evaluator in harness/src/model.rs (documented AVR assembler operator table on checked i64). Tolerated where the documentation is silent: >> of a negative operand, exp2(63), log2/page not checked.",
         "DESIGN.md §5 C05"),
 "C13": ("exhaustive device x instruction-form enumeration against the documented meaning of the feature flags",
         "Every device of the tool's own table x every instruction form (each mnemonic, each X/Y/Z pointer form, each lpm/elpm form) with three operand tuples per form: forms the device lacks according to its flags must fail the build; every other form must assemble to the same words as the independent encoder gives (one-word lds/sts on reduced cores). Exhaustive over device x form.",
         "Feature flags are read from the tool's table (the property defers to it); their meaning is taken from the AVR/avra documentation in isa::gate. Operand tuples per form are sampled (3), forms and devices are complete.",
         "DESIGN.md §5 C13"),
 "C02": ("proptest program recipes interpreted per device, compared byte for byte with the reference layout model; label values observed through a .dd table",
         "100k (quick) / 1M (thorough) generated multi-segment programs per run over every device of the table: interleaved .cseg/.dseg/.eseg blocks, forward .org (literal, constant expression or earlier .equ), one- and two-word instructions (one-word lds/sts on reduced cores), odd/even .db with strings, .dw/.dd/.dq, .byte, labels before items and at block ends. code, eeprom and ram_filling must equal the model's layout and every label value (made visible in a final .dd table) must equal the position of the item that follows it. Backward .org must fail.",
         "Reference layout model harness/src/model.rs. Input domain restrictions of DESIGN §4 (.org is followed by an item of the same segment, never follows a label, `.org 0` only at position 0). Open findings (fixed legs, printed as KNOWN-FINDING): .byte whose size is not known where the directive stands (.set variable, later .equ); .org 0 behind content that came out of macro calls.",
         "DESIGN.md §5 C02, §11"),
 "C03": ("deterministic boundary sweep + proptest placements, decoded with the independent decoder and compared with the reference model",
         "Every branch kind (18 br*, brbs/brbc, rjmp, rcall) x every distance within 3 of both range limits x 4 fillers deterministically (about 6 000 cases incl. distances congruent to reachable ones modulo the field size, 2^8 and 2^16, on four device variants) plus 120k (quick) / 1.5M (thorough) generated placements with fillers of one/two-word instructions, odd .db, .dw and .org gaps, targets spelled as label, pc±k, label+k, label-k. A reachable target must give exactly displacement d (the harness decodes the word with its own decoder); an unreachable one must fail the build.",
         "isa::assemble / isa::decode for the displacement field; the construction is cross-checked against the model (any inconsistency is a harness error, exit 2).",
         "DESIGN.md §5 C03"),
 "C06": ("proptest data-directive programs against the reference model, with single-fault must-fail variants",
         "120k (quick) / 1.5M (thorough) programs of .db/.dw/.dd/.dq lines in flash and EEPROM with values within ±2 of both ends of each width's range, strings (empty, hostile ASCII, multi-byte UTF-8), forward .equ symbols, labels, .byte in EEPROM; bytes must match the model (little-endian, exact width, one pad byte per odd .db line in flash only). Variants with exactly one fault (value beyond either end, string in a word directive, data in .dseg, .byte in .cseg) must fail.",
         "Accepted range per width is signed-min..unsigned-max (-128..255 etc.), the union the documentation describes; .dq accepts every i64.",
         "DESIGN.md §5 C06"),
 "C07": ("round trip through the real writer and an independent strict Intel HEX reader over enumerated and random image lengths",
         "Arbitrary images are written with write_code_hex / write_eeprom_hex and decoded with the harness's own reader (record syntax, length, checksum, types 00-05, one EOF last, no byte twice): every length 0..600 (thorough 0..4096) for both writers, every 64 KiB boundary up to the largest flash of the device table ±17 (thorough ±300), random lengths, lengths around 1 MiB and up to the 8 MiB no-device capacity, random / all-zero / all-0xFF contents. The decoded address->byte map must be exactly the image.",
         "harness/src/ihex.rs implements the Intel HEX specification (segment and linear base records).",
         "DESIGN.md §5 C07"),
 "C12": ("exhaustive device x memory x boundary grid, shipped part-definition files vs enforced capacities, random programs for reported sizes",
         "Every device + no device x {flash, EEPROM, RAM} x usage {cap-1, cap, cap+1} x 4 ways of reaching it (2.1k builds up to 8 MiB): builds iff usage <= capacity, reports the device's sizes and ram_filling = data extent. Every shipped includes/*def.inc whose device is in the table: the four figures it declares (pragma AVRPART MEMORY, falling back to FLASHEND/E2END/SRAM_*) are compared with what is enforced, through `.device` and (when the file assembles) through a build that includes it. Unknown and second .device must fail. Plus 8k/200k random multi-segment programs for sizes.",
         "Shipped files naming a device that is not in the table are counted (skipped), not reported: the statement makes an unknown device an error. RAM start is only observable when RAM size > 0.",
         "DESIGN.md §5 C12"),
 "C08": ("enumerated chain shapes + proptest conditional trees with poison in unselected branches; reference model and metamorphic blank/delete relations",
         "Every chain shape with <=3 arms x every truth assignment x optional .else x a nested chain in each position (356 cases) plus 100k (quick) / 1.5M (thorough) generated trees (1-4 arms, depth 3, conditions on literals, .equ comparisons, .ifdef/.ifndef). Selected bodies carry unique markers (data, messages, .equ/label definitions read back later); unselected bodies carry poison (unparsable text, .error, undefined macros, bad operands, duplicate labels, redefinitions, .device, missing include, unevaluable nested conditionals, .macro, .exit, .define). The image, the messages with their line numbers and the sizes must equal the model's, and the full result must equal that of the program with the unselected lines blanked and deleted.",
         "Reference conditional semantics in model.rs (first true arm, else .else). Poison never contains an unbalanced conditional keyword; conditions only use what is known while reading (literals, earlier .equ, .define flags).",
         "DESIGN.md §5 C08"),
 "C09": ("proptest macro programs; differential tool(with macros) vs tool(hand-expanded by AST substitution) vs reference model",
         "80k (quick) / 1M (thorough) programs (plus deterministic many-call legs): 1-4 macros with 0-10 typed parameters (register, pointer form, Y/Z+q, whole expression, embedded atom, byte, condition, label number), bodies with instructions/data over @n, .if @n/.else, nested calls passing @n and expressions over @n, .dseg/.eseg excursions (also as last lines), parameterised labels; 1-6 calls in other letter case, before and after the definition, with generated expression arguments. The generator expands calls itself on the AST; build(program with macros) must equal build(hand-expanded program) and the model image. Undefined macro / missing used argument must fail.",
         "Embedded positions (`@0*2`) only receive atoms, function calls or parenthesised arguments so that textual and value substitution agree (the statement does not choose); .message/.warning lines stand in bodies and between calls since the order of messages was repaired (1a87953): the list must be in the order of assembly.",
         "DESIGN.md §5 C09"),
 "C10": ("proptest define/use histories over all four symbol kinds against the reference binding model, single-fault must-fail variants, alias->register metamorphic relation",
         "120k (quick) / 1.5M (thorough) programs of 2-9 symbols (code/data/EEPROM labels, .equ incl. references to other symbols, .set with sequential reassignments, .def/.undef/re-.def) and 4-27 define/use steps in generated order, each occurrence of a name in its own letter case. Image must equal the model's binding; variants with one fault (definition deleted, duplicate label, alias out of scope, .set used before assignment) must fail; replacing alias uses by the register must not change the image.",
         "Names are unique across symbol kinds (collisions between kinds are not defined by the property); re-.def only after .undef.",
         "DESIGN.md §5 C10"),
 "C11": ("proptest split of a flat program into a file tree on disk; differential build_file(tree) vs build_str(pasted text) vs reference model",
         "12k (quick) / 150k (thorough) generated trees of 1-8 files, depth <= 4, written under scratch/: every file is reachable by exactly one documented rule (path as written absolute / relative to the working directory, includer's directory or sub/, caller-supplied directory, .includepath absolute or relative to the file carrying it, carried by the includer, an enclosing file or a previously included sibling). Labels, .equ, macros, .define flags, .device and messages cross file boundaries in both directions; 20 % of files end with .exit + poison. build_file(tree) must equal build_str(pasted text) in images, sizes, ram_filling and message texts; message line numbers must be the lines in their own files; the pasted text must match the model. A file that exists nowhere must fail with an error naming it.",
         "File names are unique so the (undocumented) search order never matters; .exit only at the end of a file; the harness's working directory is /verif.",
         "DESIGN.md §5 C11"),
 "C14": ("metamorphic: one generated program rendered under two generated styles must give the canonical rendering's result",
         "120k (quick) / 1.5M (thorough) pairs: a valid program from the union of the layout, expression, data, conditional, macro and symbol generators rendered under two independent styles over nine dimensions (three comment kinds with hostile text, blank/comment-only lines, spaces/tabs at the permitted positions, LF/CRLF, case of mnemonics, registers, function names, symbol references, radix and zero padding). Each rendering must produce exactly the canonical rendering's code, eeprom, sizes, ram_filling and message texts (or fail like it).",
         "White-space positions restricted to those the grammar documents/accepts (DESIGN §4: none inside index forms, none between a unary operator and its operand, none before a label's colon); directive names are not re-cased; >=95 % of canonical renderings must build or the run is declared broken.",
         "DESIGN.md §5 C14"),
 "C15": ("proptest single-fault injection at generated positions with a line-shift metamorphic relation; message-order oracle against a blanked twin program",
         "72k (quick) / 360k (thorough) programs with exactly one injected fault of 18 kinds on a three-digit line whose number cannot occur otherwise in the program: the build must fail and the error text must contain that line number as a stand-alone token, and number+k after k blank lines are inserted above. 32k/160k message programs: .message/.warning/.error at top level, in taken and untaken arms and in EEPROM blocks: images equal those of the twin with the directives blanked, the message list holds exactly the assembled ones in source order with their own line numbers, .error fails exactly when assembled.",
         "The message format itself is not pinned (only text, order and a line-number token). For a duplicate label the line of either definition is accepted.",
         "DESIGN.md §5 C15"),
 "C16": ("bounded-exhaustive operand dictionary + seeded mutation fuzzing + structural stress inputs, every case in an isolated worker process with rlimit and watchdog",
         "4.4M cases in quick: every directive and mnemonic x every operand list of length 0-2 over a 29-entry dictionary of valid, boundary and hostile operand texts x 5 contexts (exhaustive), every list of length 3 alone (thorough: in every context, 19M), 50k (thorough 2M) random line/token/byte mutations of generated valid programs and of the repository's fixtures, ~150 stress inputs (nesting depth to 30000, recursion through .equ/.set/macros, absurd .org/.byte, 64 KiB tokens). Each build runs in a worker process (8 MiB stack, 1 GiB address space, 10 s watchdog with a 30 s re-run): the outcome must be a result or an error value; a panic, stack overflow, allocation failure or timeout is a violation. Thorough adds a libFuzzer campaign on raw bytes.",
         "'Promptly' is judged with a 10 s / 30 s threshold for inputs <= 64 KiB that normally take < 10 ms. Special files (/dev/zero etc.) as include targets are outside the dictionary. Worker pool failures exit 2, never 1.",
         "DESIGN.md §5 C16"),
 "C17": ("model-based generation of build histories (sequential / concurrent / fresh-process operations) with an equality invariant against a fresh-process reference",
         "2k (quick) / 100k (thorough) generated histories: a pool of 3-7 programs (generated valid and failing programs, six families that give one shared name different meanings across programs - .equ, macro, .device, .define, label/.set/.def, messages - and include trees built with build_file) and 6-17 operations (build in-process, build concurrently in 2-16 threads for 1-3 rounds, build in a fresh process). The reference result of each program is its result in a fresh worker process; every later result in the history must be identical (BuildResult or error text).",
         "Real OS threads, not an owned scheduler: an interleaving-specific race would only be found by chance; the realistic failure (shared mutable state between builds) is visible sequentially as well. Repetition inside one process exercises different HashMap seeds.",
         "DESIGN.md §5 C17"),
 "C18": ("proptest CLI invocations in fresh directories; differential against build_file in the harness, outputs decoded with the independent Intel HEX reader, directory snapshot comparison",
         "1.6k (quick) / 20k (thorough) runs of the avra-rs binary built from the tree: 12 kinds of source (valid code / code+EEPROM / EEPROM only / empty / syntax error / semantic error / missing include / nonexistent / local include / above 64 KiB / messages) x file-name shapes x relative/absolute source path x -o/-e each absent, writable, missing parent directory or an existing directory x -v x short/long options x pre-existing output files with sentinel content. Success: exit 0, <stem>.hex / <stem>.eep.hex (or -o/-e) decode to exactly the library's images, nothing else changes. Failing build: non-zero exit, a diagnostic, directory tree byte-for-byte unchanged. Unwritable output: non-zero exit and a diagnostic.",
         "Unwritable locations are limited to what root cannot write either (missing parent directory, target is a directory). An empty flash/EEPROM image may be represented by no file, an EOF-only file or an untouched pre-existing file (the statement does not say). The CLI is the debug build of the snapshot.",
         "DESIGN.md §5 C18"),
})
NOT_YET = {}

# additions of the third round (appended to the level text)
EXTRA = {
 "C06": " The many-evaluated-nodes leg of C05 (thousands of lines, costly symbols several times per line, flash and EEPROM, .dd/.dq) is judged here byte for byte too.",
 "C01": " A context leg assembles sampled tuples of every form as the first item after an .org, after excursions into the data/EEPROM segments, in a continued code segment, with registers spelled through .def aliases defined in either segment, and under five full-featured devices. The context leg also puts every form directly behind data in flash (.db odd, .dd, .dq, string) and rotates over ten devices including the smallest flashes.",
 "C02": " A deterministic leg checks that origins set from macro bodies (.org only, leading, trailing, between items, inside data/EEPROM excursions, through nested calls, back to the start of the caller's block) land where the same lines written in place land. Reservation sizes are written as literals, constant expressions or earlier .equ symbols. A scale leg runs the same recipes with 20-260 blocks, up to 900 labels and images up to 40 K words per memory (counts and addresses crossing 2^8, 2^12, 2^15, 2^16).",
 "C03": " Fillers contain strings with multi-byte characters; two of six spellings let the branch come out of a macro (compound target argument, or pc-@0 computed in the body).",
 "C04": " A seeded free-form leg (800k quick / 8M thorough) and the libFuzzer target `instr` decode bytes into one instruction with 0-4 operands of any kind, values from edge / wrap-twin / wide distributions in nine spellings (decimal, hex, .equ, parenthesised, v+0, character literal, .set re-assigned inside .dseg, grouping-sensitive macro argument, operator applied in a macro body) at word addresses 0-5.",
 "C05": " Every eighth tree is additionally evaluated with its root operator in a macro body and the root's operands as arguments. A scale leg assembles tables of thousands of sums and lines whose operands are costly symbols (chains of doublings, each far below the tool's per-expression limit): millions of evaluated nodes in one build, values known by construction.",
 "C07": " The reader accepts no empty lines: the file consists of records only. The result handed to the writers reports varying capacities (defaults, zero, one, the exact image lengths, any row of the device table) and carries messages / RAM usage: none of that may matter. An end-to-end leg assembles programs for every device with more than 64 KiB of flash (and without a device) that place data below, across and above each 64 KiB boundary and reads back the file written from that very result.",
 "C08": " Unselected branches also hold nested conditionals whose own condition is not valid (balanced), and every fourth program is additionally assembled with labels in front of about half of its conditional directives. Every fourth program is additionally assembled with everything after the prelude as the body of a macro called with one argument, unselected lines using parameters the call does not pass. Every third program defines a macro in front of the conditional constructs and calls it between and behind them (unselected text contains macro definitions too).",
 "C09": " Deterministic context pairs (macro form vs hand-expanded text): origins set by bodies, definitions inside taken/untaken conditionals closed with .endm/.endmacro, comment characters inside literals of a body, the moment a conditional of the body is decided (open finding), calls made while .dseg/.eseg is selected.",
 "C10": " A deterministic leg gives one name two definitions of value-carrying kinds (label in any segment, .equ, .set; both orders, other letter case): must fail. The duplicate-label variant also re-defines the label as a bare line directly in front of its first definition (same segment, same address).",
 "C11": " Deterministic legs: an .include inside a macro body, the same file name in two directories (the including file's directory decides). Trees with an even number of files name the main file by a path relative to the working directory; the main file may be a symbolic link. A deterministic leg opens a conditional or a macro definition in one file and closes it in the other (two open findings). A large-files leg (40 KB to 2.5 MB, thorough 16 MB; padding by comments, blank lines or data; large included file, large main file, .exit in the middle of a large file) compares with the pasted text.",
 "C12": " A placement grid (every device x memory x {cap, cap+1}) selects the device from a macro body (defined before or after), inside a conditional or after the content, places the last unit through a macro that starts with .org, and follows an over-full memory by an .org back to its start; .device operands that are not names, two names on one line and second selections through macros must fail; one placement leaves an origin in an empty segment, makes an excursion and continues the memory.",
 "C13": " A seeded free-form leg (800k quick / 8M thorough) and the libFuzzer target `gate` put generated encodable instructions (all operand spellings, word addresses 0-5) under every device of the table. The sequence leg also surrounds missing and available forms with the pragmas of the vendor's assembler (warning/error instruction, AVRPART ..., overlap, partinc) in front of .device, behind it and at the end.",
 "C14": " Comment texts include banners (runs of 90-300 operator or parenthesis characters) in all three comment kinds; a radix leg writes values around 2^31..2^70 in every radix and compares with the decimal spelling in five contexts; names of labels, .equ, .set and .def tested by .ifdef/.ifndef are written in four letter cases. A limit leg takes lines of every size 100..140 (and around 256) around the tool's nesting limits (operator chains, parentheses, unary chains) and compares each with itself plus every kind of trailing comment, blanks, indentation, other letter case and CRLF.",
 "C15": " Fault kinds include an undefined symbol where its value cannot matter (right of a decided && / ||, times zero, inside a function); every fourth fault program is also built from a file (as main file and as included file, blank lines on top); messages issued from macro bodies must come in textual order or in the order of assembly (open finding). Message texts carry apostrophes, comment characters, brackets, commas, a backslash and banners of 130-170 operator characters; an enumerated leg (15^3, thorough 15^4/7 programs) puts plain messages and messages from macro bodies into sections that switch segments (.dseg/.eseg/.cseg/.org) and expects ascending line numbers.",
 "C16": " Worker processes run on a 2 MiB stack (the default of a Rust thread). Stress inputs include operator chains up to 10^6 terms in seven positions, symbols x operator chains, absurd sizes under seven devices x nine ways x three sizes, and one name defined by two kinds of definition in both orders (also reserved names), macro substitution blow-ups (thousands of uses x tens of thousands of characters), macro and include fan-out (2^24 expansions / includes from a few lines). The stress inputs additionally go through the unoptimised command-line binary on its default 8 MiB stack (exit status 0 or 1 within the watchdog, never a signal). Stress inputs also contain costly symbols used hundreds of times (lines, one line, instructions and conditions, macro calls) and deep nesting behind string / character literals that contain a backslash, the other quote or comment characters.",
 "C17": " A further family uses device names that are near keys of the device table (longer, shorter, other letter case), so that a lookup that iterates a hash map shows as a difference between processes. Two further families: several entries of one table answering one question (3-7 aliases of one register, equal .equ values and labels of one address, flags, macros with messages) and the special name pc in places evaluated while the text is read (.org pc+n, .if pc, .byte pc, inside macro bodies).",
 "C18": " Sources may be reached through a symbolic link with another stem in the same or another directory, carry non-ASCII and non-UTF-8 names, and -o/-e may name /dev/full or one shared path (which must be reported as a failure when both images are non-empty). -e may also name a hard link of the flash output file (one file under two names).",
}

def main():
    props = [json.loads(l) for l in open(os.path.join(ROOT, "properties.jsonl"))]
    checks = []
    na = []
    for p in props:
        pid = p["id"]
        if pid in CHECKS:
            tech, text, note, ref = CHECKS[pid]
            text = text + EXTRA.get(pid, "")
            checks.append({
                "property_id": pid,
                "quick_cmd": f"./check {pid} quick",
                "thorough_cmd": f"./check {pid} thorough",
                "evidence_file": f"/verif/evidence/{pid}.json",
                "replay_cmd_template": f"./check replay {pid} {{path}}",
                "engine": "avra-verif",
                "level_claimed": {"category": "exploration", "text": text, "design_ref": ref},
                "level_note": note,
                "technique": tech,
            })
        else:
            na.append({"property_id": pid, "reason": NOT_YET.get(pid, "check not implemented yet in this revision of /verif (work in progress; the property is decidable by generated-input search, see DESIGN.md §5)")})
    m = {
        "version": 1,
        "setup_cmd": "./check setup",
        "hooks": {
            "guard": "avra_rs_verif",
            "enable": "none needed: every observation point is public API (build_str, build_file, BuildResult, writer::write_*_hex, device::DEVICES, the CLI binary); checks build /repo's working tree unmodified from a checksum snapshot",
            "baseline_off_cmd": "cd /repo && cargo test --workspace --no-fail-fast --offline",
            "source_commits": [],
            "add_only": True,
        },
        "engines": [
            {"name": "avra-verif", "path": "/verif/harness", "serves_properties": sorted(CHECKS.keys()),
             "kind_free_text": "Rust binary: bounded-exhaustive enumerators and proptest 1.11 strategies (TestRunner, fixed ChaCha seed from VERIF_SEED, failure_persistence off) over generator ASTs, with independent oracles (ISA encoder/decoder, assembler model, Intel HEX reader) and metamorphic relations; replay files are serialised oracle cases"},
        ],
        "checks": checks,
        "not_applicable": na,
        "notes": "All checks: exit 0 held / exit 1 + 'VIOLATION property=<id> replay=<path>' / exit 2 machinery failure. Known findings: /verif/KNOWN_FINDINGS.txt (open: entries print KNOWN-FINDING and exit 0; fixed: entries suppress nothing). VERIF_SEED selects the PRNG stream.",
    }
    json.dump(m, open(os.path.join(ROOT, "MANIFEST.json"), "w"), indent=1)
    print("wrote MANIFEST.json with", len(checks), "checks,", len(na), "not_applicable")
main()
