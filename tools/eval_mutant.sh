#!/bin/bash
# Evaluate one seeded change against the checks.
#   tools/eval_mutant.sh <mutant-dir> <property-id> [more check ids…]
# <mutant-dir> holds patch.diff and demo.rs / demo.sh (as produced by the seeding sub-agents or
# kept under /verif/seeded/<id>/).  Works on a scratch worktree of /repo under /tmp (never on
# /repo itself), confirms: patch applies, crate compiles, 67 tests pass, demo passes without
# and fails with the patch; then runs the given checks with VERIF_REPO pointing at the patched
# worktree and reports which of them raise a VIOLATION.  The worktree is removed afterwards.
set -u
MUT="$(cd "$1" && pwd)"; shift
IDS="$*"
WT=/tmp/evwt.$$
export CARGO_NET_OFFLINE=true RUST_BACKTRACE=0
git -C /repo worktree add -q --detach "$WT" HEAD || exit 2
mkdir -p "$WT/target"; cp -r /repo/target/debug "$WT/target/" 2>/dev/null
cleanup() { git -C /repo worktree remove --force "$WT" >/dev/null 2>&1; rm -rf "$WT"; }
trap cleanup EXIT
cd "$WT" || exit 2
res() { printf '%-28s %s\n' "$1" "$2"; }
# demo without patch
demo() {
  if [ -f "$MUT/demo.rs" ]; then
    cp "$MUT/demo.rs" tests/demo.rs
    cargo test --offline --test demo >/tmp/evdemo.$$ 2>&1; rc=$?
    rm -f tests/demo.rs
    return $rc
  elif [ -f "$MUT/demo.sh" ]; then
    cargo build --offline >/dev/null 2>&1
    ( cd "$MUT" && WORKTREE="$WT" bash ./demo.sh "$WT" ) >/tmp/evdemo.$$ 2>&1; return $?
  else
    return 99
  fi
}
demo; d0=$?
res "demo without patch" "$([ $d0 -eq 0 ] && echo passes || echo "FAILS(rc=$d0)")"
if ! git apply "$MUT/patch.diff" 2>/tmp/evapply.$$; then res "patch" "DOES NOT APPLY: $(head -2 /tmp/evapply.$$)"; exit 3; fi
res "patch" "applies ($(git diff --stat | tail -1 | sed 's/^ *//'))"
if ! cargo build --offline >/tmp/evbuild.$$ 2>&1; then res "build" "FAILS"; exit 3; fi
res "build" ok
t=$(cargo test --offline 2>&1 | grep -E "^test result" | head -1)
res "unit tests" "$t"
demo; d1=$?
res "demo with patch" "$([ $d1 -ne 0 ] && echo "fails (as intended)" || echo "PASSES (mutant not confirmed)")"
cd /verif
for id in $IDS; do
  out=$(VERIF_REPO="$WT" ./check "$id" quick 2>&1); rc=$?
  n=$(echo "$out" | grep -c "^VIOLATION")
  first=$(echo "$out" | grep -A1 "^VIOLATION" | grep "sig=" | head -1 | cut -c1-220)
  res "check $id" "exit=$rc violations=$n $first"
done
rm -f /tmp/evdemo.$$ /tmp/evapply.$$ /tmp/evbuild.$$
# restore the snapshot of the unchanged tree for later runs
exit 0
