.if 4
.warning "note n1x a173x"
.dw 173
.else
.message "note n2x a173x"
.endif
.if 3
.message "note n3x a92x"
.dw 92
.else
.message "note n4x a92x"
.endif
; comment
.if 3
.message "note n5x a22x"
.dw 22
.else
.message "note n6x a22x"
.endif
ldi r21, 117
.message "note n7x a193x"
.warning "note n8x a83x"
ldi r31, 191

.message "note n9x a178x"