.equ G_0=-102
.equ uns_52_1=65536
q1i_n_3: nop
nop
nop
__4: nop
nop
nop
.dq uNs_52_1%0b0101>>02^(205)
.equ U3K_2=0b01
