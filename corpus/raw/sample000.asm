.equ sbpc_1=11353
.def uCI_0=r18
.dw lWRD(SBPC_1)
ldi UCI_0, 41
.dd sbpc_1+1
ldi UCI_0, 33
ldi uci_0, 49
ldi r21, lOw(SBPC_1)
.dw lWRD(SBPC_1)
.eseg
.undef uci_0
.cseg
.def ucI_0=r19
ldi uci_0, 53
.dd SBPC_1+1
ldi UCI_0, 25
moV UcI_0, r6
.dw lwrd(SBPC_1)
mOv UCI_0, r28
MOV uci_0, r18
.undef uci_0
.dw lwrd(sbpc_1)
.dseg
.def uCi_0=r20
.cseg
.dd SBPC_1+1
