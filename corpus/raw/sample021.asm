.ifdef FL_1
.dw 53744
.else
.dw 3605
.endif
nop
nop
