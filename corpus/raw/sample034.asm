.ifdef FL_0
.dw 53744
.else
.dw 3605
.endif
ldi r25, low(eq_9)
.equ eq_2=13
.dseg
dat_3: .byte 1
.cseg
.dw dat_3
MAC_13 124, r28
.dw 4101
ldi r18, low(eq_2)
MAC_13 81, r17
.device ATmega8
.equ eq_9=34
lab_10: nop
.dw LAB_10
nop
.macro mac_13
.dw @0, 28685
mov @1, r1
.endm
.ifdef FL_0
.dw 53758
.else
.dw 3605
.endif
