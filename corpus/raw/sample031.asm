nop
