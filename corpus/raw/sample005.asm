; r16: .db 1
	ldi   R29	,	low(u9jg_3  )
	lds r12 	 ,_H_8 // */ not really
  	
	.def __1	=R18  /* r16: .db 1 */
	mov   __1	,r28
	adD r7	, __1
  	
  .dw lwrd  ( u9jg_3 	 )
  LDI r21 	 ,  Low  ( _43_8_4  )
	.set V0q8A__5  =  1294
; */ not really
.set v0q8a__5 = 	 v0q8a__5  +  7; x ; y

	.dd	_H_8 	 + 1// x ; y
ADd r3,	__1
 	 .dd _43_8_4	+ 1
; */ not really

.dseg
; 1, 2, 3
; nop
_H_8:  .byte   1
  .cseg
; x ; y
  	
 .dd	 U9JG_3+ 	 1
; x ; y
  .equ u9jg_3	=19425/* a // b */
; a // b
.dw	LWRD  (	_43_8_4 ) /* c */
 ADD R11  , 	 __1
; .endif
  	
	.eseg
; a // b
  // x ; y
_43_8_4:  .db 19	/* say "hi" */
.cseg 	 /* c */
