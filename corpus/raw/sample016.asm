; comment
.eseg
.message "note n1x a120x"
.db 120
.cseg
.if 0
.warning "note n2x a88x"
.elif 1
.message "note n3x a88x"
.else
.message "note n4x a88x"
.endif
nop
.if 0-3
.message "note n5x a2x"
.else
.ifndef never_defined_flag
.warning "note n6x a2x"
.endif
.message "note n7x a2x"
.endif
.if 0
.warning "note n8x a176x"
.elif 1
.message "note n9x a176x"
.else
.message "note n10x a176x"
.endif
.message "note n11x a182x"
.warning "note n12x a210x"
.message "note n13x a147x"
.if 0-3
.message "note n14x a194x"
.else
.ifndef never_defined_flag
.warning "note n15x a194x"
.endif
.message "note n16x a194x"
.endif
.eseg
.message "note n17x a21x"
.db 21
.cseg
lm11: .db 246, "x"
.if 0
.warning "note n18x a222x"
.elif 1
.message "note n19x a222x"
.else
.message "note n20x a222x"
.endif
.warning "note n21x a195x"
lm14: .db 65, "x"


lm17: .db 188, "x"