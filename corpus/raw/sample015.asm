 .dw	lwrd (WHIV_6)/* c */
  .eseg
syiaz_0: 	 .db	110	/* a // b */
  // a // b

	.cseg
 .dd syiaz_0+ 1	; 1, 2, 3
ldi R17 	 , low  ( 	 h_3 	 )
  	
.set	 ctG_4 =1676
  sts   H_3 	 ,r14
  .set __PC_2=  ctg_4+$003 	 // x ; y
  	
.equ WHIV_6=SYIAZ_0  +  0110

  // .endif
ldi   R21, low (  T__5)

  // say "hi"
.dd   __PC_2+1	; it's

	.dseg
h99xwh_1:.byte $2
; r16: .db 1
; say "hi"
.cseg /* @0 @1 */
  	
.dw lwrd 	 (t__5 ); it's
 	 ldi   r17	,low 	 ( 	 __pc_2  )	; 1, 2, 3
; 1, 2, 3
	sts	 H99XWH_1  , 	 R26  // @0 @1
 	 .set	ctg_4 = 	 __PC_2	+0x002 ; 1, 2, 3
	sts	 h99xwh_1  , 	 r6 	 // a // b

 .dseg

H_3:  .byte 4
; x ; y
  // a // b
	.cseg  // say "hi"
T__5:nop  /* x ; y */
