 .equ S9EE_2=14
S_n__3: 	 nop  
 	 nop 	 
nop  
_8N__4: nop
 nop
	nop  
.dq (oyh_j7_0	<<	5^('t' ))	>= (_8N__4==	'~') *oYh_j7_0
 .equ	OYH_J7_0=127	
 	 .equ __1 = 	 -3 
