
.cseg
B_1:	.dd	 svh9_0,  7 	 + 0x003
  // 1, 2, 3
.dw	b_1, f_0_2, -0b1000000000000010 ,024725 	 ,  B_1 
 	 .eseg
  	
  // r16: .db 1
 	 .dd	SJ_3  ,034656527311	+ 	 3 	 ,	B_1 	 ,	P7__4  
; .endif
	.byte 6
; it's
  	
 .db	 165 


 .equ   Svh9_0  =	5
 	 .equ	F_0_2 =	$007fc6
  .equ	 SJ_3	= 	 -$007ffffffe 
; x ; y
 .equ P7__4	=-017777777777
