.equ   VJ_Y9O_0  = $1FA5445C 
  .equ V_1	=-11
pzj_2_3:	nop  
shYqKM_4:nop 	 
.dq	~LOW 	 ( 	 02024117303	) 
.equ TVAZF1_2	=0b011010000  
