nop
.dw 4097
nop
nop
nop
.dw 4101
