  .equ W_2=3279114302	
sK_F__3:nop 	 
  nop 
U_BHZ_4:nop
	nop 	 
  .dq	~2	>>0  
	.equ   O5_FC_0	= 	 5  
 .equ D3R_1=  4	
