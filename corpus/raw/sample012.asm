.dw LWRD (	twT_2	) 
 sts	 Wr_1, 	 r2	
	.eseg	
TWt_2:.db 172
 	 .cseg  
 LdI	r17,	low (twt_2  ) 	 
.dw	LwrD	(twt_2) 	 
	.dd D7y_0  +  1 	 
	.dd D7Y_0	+ 1
 .dw lwrd	(TWT_2)
ldi r21,Low  ( TWT_2)
ldi	 R29 	 , LOW  ( TWT_2 	 )
 ldi r25	,low(  TWT_2  ) 
.dd Wr_1 	 + 	 1
.dd tWT_2 	 +	1	
  .dw lwrd 	 (	TWT_2 	 ) 
 	 .dd TWt_2+ 1
 .dd TwT_2 	 + 	 1	
	Ldi	 r17 ,	low	(  TwT_2 )
 .dd WR_1 	 + 	 1
 LDI	r17, 	 low	( 	 TWT_2 )	
  sts   WR_1 ,R2
LDS r20 	 , 	 D7Y_0 
	.dseg
D7Y_0:	.byte   1	
  .cseg
.dd D7Y_0 + 1 	 
 	 .dd TWT_2 	 +1 	 
 .dd wr_1	+1	
	LDI r21  , 	 low  ( 	 Wr_1	) 	 
.dseg
Wr_1:.byte   1
.cseg 
