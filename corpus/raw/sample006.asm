  .set   UUH_03_1 	 =1872
  .set UUH_03_1= 	 1873
.def	 W_3 =r18
	.eseg// c
 .set   ctcg4_0 	 =uuh_03_1+  3  /* 1, 2, 3 */
.cseg
  .undef	 W_3/* .endif */
 	 ldi	R17 ,  low (CTCG4_0 	 )
  .dw lwrd	(uuh_03_1  )
 	 .eseg// @0 @1
.def w_3	=R19
  .cseg	/* @0 @1 */
 	 .eseg
.set	uuh_03_1=ctcG4_0 	 + 3; .endif
 	 .cseg  // say "hi"
.dw lwrd(	fp___2  ) 	 ; 1, 2, 3
.equ	 FP___2=	27493	// a // b
