 .eseg
  // a // b

	.set K58W0B_0  =$026d
  // r16: .db 1
	.cseg 	 ; c
	RJmp	_p_8
  // it's

ldi r25	,low 	 (TO_1); c
.dseg  // nop
  	
CV_QQ_7:	.byte   0b11
; .endif
.cseg  /* a // b */
  // 1, 2, 3
  	
 	 .eseg// x ; y
m_F_5:  .db   0b011101011
  	
; 1, 2, 3
	.cseg	; it's
.dw lwrd( 	 S_Esek_2); it's
 	 .dd	 k58w0b_0 	 +0x001
  	
  .dw	lwrd 	 ( M_f_5 )  ; c
 ldi r17	,low(m_f_5	)// 1, 2, 3
  // x ; y
  // nop
  lds	R12  ,cv_qq_7  ; r16: .db 1
.eseg /* @0 @1 */
.def	 b_8_6=r18; it's
  // r16: .db 1
; x ; y
 .cseg; a // b
; x ; y
  // r16: .db 1
  .dw   lwrd  (To_1 )

; say "hi"
.dw	lwrd  (	K58W0B_0 )
.equ   TO_1 = 	 0b1100000010001010 	 /* r16: .db 1 */
 lds r4	, 	 CV_QQ_7
; */ not really
	.eseg  // x ; y
  .set   PV_4=	k58w0b_0 	 +	0b010; nop
  // x ; y

.cseg
  .eseg; x ; y


S_Esek_2: 	 .db 86 	 ; .endif
  	
  // */ not really
  .cseg  // x ; y
  // r16: .db 1
  // r16: .db 1
_P_8:  nop; nop
