 	 .equ V6__0=24
.equ   GM_2 	 = 	 10  
J__3: 	 nop 
USM_4:nop
 	 .dq	 -0302 	 *	hwrd  ( 65535 	 )
.equ	s6_1	=0x0d5
