.equ J4F__0=-0167443
.equ _O_1=0x0d6
Q_3: nop
nop
VV4_4: nop
nop
.dq !9>>18>>07
.equ TJS5_2=-0x00b
