 .equ	 N4_2= 	 -256
KF_3:  nop  
_qwc___4: nop
 	 .dq	 3 >=	(183	|139) 	 &&_qwc___4>>	(b_1>>	60063) 	 
.equ   Ha_Y_0	=	-25976
.equ b_1=	-242 
