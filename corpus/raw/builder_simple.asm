.message "This simple test displays basic assembler constructions."
.include "m48def.inc" ; - include device specific include file
.if 0
        bla bla bla
.endif
; begin of file
        .dseg
counter:
        .set size = 2
        .byte size
        .set size = size + 2
state:  .byte size
; start code segment
        .cseg
        .org 0x0 ; test no action offset
        .equ end = 0x42 ; Why not
        push r0
        .org 0x1 ; test no action offset
m_begin: ; start calculation
.def t0 = r17
        mov t0, r0
.undef t0
.def t0 = r16
        subi r17, (-1)
        brpl m0
        rjmp m_begin
; Restore operation setups
m0:     pop r1
.ifndef NotConsume
        ldi zl, low(data)
        ldi zh, high(data)
        lpm t0, Z+
.else
.endif
        rjmp m1
; Output string
data:   .db 15, 26, "Hello, World", end
; Other binary data stored in words
data_w:
        .dw 0xff44, end, 0xda4e
m1:
        ldi r18, data_w
; Eeprom
        .eseg