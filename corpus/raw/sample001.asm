.dw lWRD(W2_0) /* nop */
.dseg // nop
__5: .byte 0x001
.cseg
.equ q_1=9730
.set n5gqh_4=03332
.dd w2_0+$01
.dw LWRD(w2_0) // it's
rjmp w2_0 ; @0 @1
T6q22Z_6: nop
ldi R17, low(i9mx_8)
W2_0: nop // 1, 2, 3
I9MX_8: nop
