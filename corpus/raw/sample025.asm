.define FL_3
.dseg
dat_1: .byte 3
.cseg
.dw dat_1
nop
.equ eq_3=16
nop
.dw 4101
.warning "msg 6"
nop
.dw 4104
.dw 4105
