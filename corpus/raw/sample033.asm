.warning "msg 0"
MAC_3 99, r19
.dseg
dat_2: .byte 1
.cseg
.dw dat_2
.macro mac_3
.dw @0, 28675
mov @1, r1
.endm
.dw 4100
nop
.dseg
dat_6: .byte 3
.cseg
.dw dat_6
.dseg
dat_7: .byte 2
.cseg
.dw dat_7
