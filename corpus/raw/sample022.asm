.macro mac_0
.dw @0, 28672
mov @1, r1
.endm
.macro mac_1
.dw @0, 28673
mov @1, r1
.endm
nop
.dw 4099
.ifdef FL_1
.dw 53748
.else
.dw 3605
.endif
nop
lab_6: nop
.device ATmega2560
.dw LAB_6
.dw LAB_6
nop
nop
.dw 4108
