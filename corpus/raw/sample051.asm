
  // a // b
.eseg
M_0: .db -1, -127
.dq 79692370024604663
TK5_MV_1: .dw M_0, -32766
; it's
  // x ; y
w539RW_3: .dd 0, 1444119224, GGP_2, 11, -2147483647

.eseg
  	
  	
.dd sQgjF_4, -2147483647, 6
; 1, 2, 3
.dw -1, 0, 7+3, -32768, 35551, w539RW_3
.eseg
.cseg
  	

.byte 2
BVZZN_8: .db "U81", B5FR9C_5, Ky_6, "{{YB!.$", __7, -70, 237
.equ GGP_2=-267883903
.equ sQgjF_4=4294967293
.equ B5FR9C_5=-66
  // say "hi"
.equ Ky_6=254
; r16: .db 1
.equ __7=-2
