  // it's

.dw lwrd(s_0)
.dw lwrd(hd0s_2)
.dw lwrd(L8_5)
  // .endif
.dd H5_4+$001
sts p_6am__1, r18
  // it's
ldi r25, low(P_6aM__1)
lds r28, P_6AM__1
; @0 @1
  // it's
.dw lwrd(hd0S_2)
  // r16: .db 1
.dw lwrd(Q450_3)
.dw lwrd(S_0)


ldi r21, low(L8_5)
  // r16: .db 1
.equ L8_5=S_0+40
; say "hi"
.dd h5_4+1
; c
.dw lwrd(hd0s_2)
.eseg
  	
; nop
S_0: .db 0151
.cseg
.dseg
; a // b
  // nop
P_6AM__1: .byte 02
; nop
; say "hi"
.cseg
.eseg
hd0s_2: .db $055
.cseg
; nop
.eseg
Q450_3: .db 54

.cseg
.equ H5_4=$0d2d6
