.equ SI_0=-12
.equ ___1=67
.equ S0S3_2=3997
oL4D6H_3: nop
GYTZ_4: nop
.dq (___1<=2&77)
