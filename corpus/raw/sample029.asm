nop
.dw 4097
.message "msg 2"
.define FL_2
nop
.dw 4101
