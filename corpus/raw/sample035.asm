.equ JL5__1=40743
S2YL1K_3: nop
nop
nop
U5_4: nop
nop
nop
.dq (hwrd(6))<<3
.equ N7_1_0=26516
.equ B_2=-154
