__3: nop
G_4: nop
.dq ($00f&&__3)<<a_0<<-2
.equ A_0=-0b01000
.equ sREsq_1=-0x01
.equ W_2=0x003E
