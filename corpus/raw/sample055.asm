	.cseg
 .dw -0b0111111111111110,2+ 	 0b011, -$008001,	d4_0	,	VAB6_1
VSWFPS_2:  .db	"l"	,0372	+  $03	,  $02
	.cseg	// nop
O__5:	.dw	Og_3 	 , 	 FA__1_4, 	 -0x11A1 ,0177775, 	 0b01110001101101101 	 + 	 3// nop
.db 0b01
 .db	LOW ( O__5	)
.dq 0,  0323756164372133646506+0b0011,  9223372036854775807 	 ,	-0x7FFFFFFFFFFFFFFF  - 1 , 0x007fffffffffffffff, 	 __6
.equ d4_0 	 = 012
  .equ   VAB6_1 	 =0x00
	.equ	 Og_3=052640
.equ   FA__1_4 	 =  $0b
 .equ	 __6  = 1980620031909562025
