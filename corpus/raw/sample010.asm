GAG_0: nop
.dw lwrd(GAG_0) // 1, 2, 3
RJMP GAG_0
RJmP GAG_0 // .endif
rjmp GAG_0 // 1, 2, 3
.dw lwrd(GAG_0)
.dseg
H5_tD_1: .byte 3 /* nop */
.cseg // .endif
.dd GAG_0+1
rjmp gag_0 ; a // b
.dd h5_td_1+1
lds R0, H5_TD_1
ldi r21, LOW(H5_TD_1)
lds r4, H5_TD_1
lDi R25, LOW(GAG_0)
rjmp gag_0
.dd GAG_0+1 /* r16: .db 1 */
.dw lwrd(GAg_0) ; @0 @1
ldi r17, Low(h5_td_1) ; @0 @1
.dd H5_TD_1+1
ldi r29, LOW(GAG_0)
.dw lwrd(gag_0) ; say "hi"
.dd H5_TD_1+1
.dd GAG_0+1
rjmp gAg_0 /* x ; y */
