.includepath "includes"
.include "include_test_2.inc"
.cseg
in r0, SREG ; Read status from status register into r0