.dseg
dat_0: .byte 3
.cseg
.dw dat_0
.dw 4097
nop
.dw 4099
nop
nop
.dw 4102
.dw 4103
.dw 4104
nop
.device ATmega48
.define FL_2
.dw 4108
.dw 4109
.macro mac_14
.dw @0, 28686
mov @1, r1
.endm
