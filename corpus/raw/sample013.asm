
  // x ; y
 	 ldi	R29, 	 low(M_1 ); .endif
  	
 .dw lwrd(	m_1)
 .eseg
m_1:  .db   0130
; */ not really
  // @0 @1
.cseg	; it's

  // 1, 2, 3
sts   Tq_a_a_0 	 ,  r18; 1, 2, 3
	.dw	lwrd  ( m_1)
	rjmp	TTO4__2
 .dw lwrd (  M_1 )  // say "hi"
tto4__2:nop
; @0 @1

	RJMP   TTO4__2 /* c */
 	 ldi r29, low 	 (m_1 	 )

.dd TTO4__2+  1 ; */ not really
  // 1, 2, 3
 .dd	 tto4__2  +	$01
  // x ; y
; @0 @1
.dw	lwrd  (	tto4__2)	// .endif
  	
	LdI	 r17  ,low 	 (	M_1 	 )
  	
.dw	lwrd (m_1	)// 1, 2, 3
  	

 	 ldi   R17 , low (  m_1  )
; c
; say "hi"
.dd	tto4__2  +1 	 ; x ; y
  // */ not really
	rjMp   tTO4__2/* c */
  	
 	 stS TQ_A_a_0	, r18 ; @0 @1
  // */ not really
  	
sts	tQ_A_a_0,R22
; x ; y
  // x ; y
 	 .dd	 Tq_a_a_0+01
  	

	.dseg// .endif
Tq_a_a_0: 	 .byte 5 ; @0 @1
  	
  .cseg/* r16: .db 1 */
 ldi R17,low(TTO4__2 )
 .dd M_1+	1
  .dw	 lwrd (M_1  )  // */ not really
