.include "include_test.inc"
.cseg
in r0, SREG ; Read status from status register into r0