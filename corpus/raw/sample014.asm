  .dd ULX__5+  $01
.dseg	
vpz_3: .byte $5 	 
  	
  // 1, 2, 3
	.cseg
	sts	 vpz_3	, r6
.dw lwrd  ( 	 ___2  )
.set __6  =3841
 .equ Ir9_k_4=VPZ_3+ 65
	.dw	lwrd  (  IR9_K_4  ) 
 Ldi r29	, 	 low 	 ( 	 __6 	 ) 
  // nop
; it's
 LDS	r4 	 ,	ULX__5 	 
	.eseg 	 
___2: .db   144
  // a // b

	.cseg
 	 .dseg 
ULX__5:	.byte   5 
  	
  // r16: .db 1
 	 .cseg 	 
