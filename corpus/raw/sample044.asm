 .equ	 TQX_0	=-$008 	 
 .equ	HV_1 	 = 0 	 
 	 .equ   M2_2 	 = 	 9	
HN1XCW_3: 	 nop 
nop 	 
 nop
iK_G__4:	nop 
nop
nop 	 
 	 .dq   EXP2	( $0043	) 
