 .equ __0=50164 
  .equ	 _C8_1 =0	
  .equ v_4__2  =  -11	
_E5BA_3: 	 nop	
 	 nop
nop  
WoqU9_4:nop	
	nop	
nop 
	.dq   exp2  (2)- 	 ((111	!=	WoqU9_4)<<1)  
