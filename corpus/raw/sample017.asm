; comment
.eseg
.message "note n1x a81x"
.db 81
.cseg
.if 0
.warning "note n2x a9x"
.elif 1
.message "note n3x a9x"
.else
.message "note n4x a9x"
.endif
nop
.message "note n5x a26x"
lm5: .db 219, "x"
.if 0
.warning "note n6x a150x"
.elif 1
.message "note n7x a150x"
.else
.message "note n8x a150x"
.endif
.warning "note n9x a34x"
.eseg
.message "note n10x a231x"
.db 231
.cseg
.if 2-5
.message "note n11x a236x"
.else
.ifndef never_defined_flag
.warning "note n12x a236x"
.endif
.message "note n13x a236x"
.endif
.warning "note n14x a114x"
.if 0
.warning "note n15x a93x"
.elif 1
.message "note n16x a93x"
.else
.message "note n17x a93x"
.endif
; comment
.if ~0
.message "note n18x a166x"
.else
.ifndef never_defined_flag
.warning "note n19x a166x"
.endif
.message "note n20x a166x"
.endif
.if ~0
.message "note n21x a166x"
.else
.ifndef never_defined_flag
.warning "note n22x a166x"
.endif
.message "note n23x a166x"
.endif
ldi r21, 117
.warning "note n24x a79x"

nop
.if 1
.message "note n25x a140x"
.dw 140
.else
.message "note n26x a140x"
.endif
lm20: .db 164, "x"

.if 5
.message "note n27x a164x"
.dw 164
.else
.message "note n28x a164x"
.endif
; comment
nop
.if -1
.message "note n29x a104x"
.else
.ifndef never_defined_flag
.warning "note n30x a104x"
.endif
.message "note n31x a104x"
.endif
.if 0
.warning "note n32x a199x"
.elif 1
.message "note n33x a199x"
.else
.message "note n34x a199x"
.endif
.if 0
.warning "note n35x a28x"
.elif 1
.message "note n36x a28x"
.else
.message "note n37x a28x"
.endif
lm28: .db 9, "x"
.if 1
.warning "note n38x a185x"
.dw 185
.else
.message "note n39x a185x"
.endif
.if 5
.message "note n40x a194x"
.dw 194
.else
.message "note n41x a194x"
.endif
; comment
.if 1
.message "note n42x a30x"
.dw 30
.else
.message "note n43x a30x"
.endif
.message "note n44x a17x"
nop
lm35: .db 130, "x"
.warning "note n45x a46x"
.if 0
.warning "note n46x a230x"
.elif 1
.message "note n47x a230x"
.else
.message "note n48x a230x"
.endif