.equ eq_0=7
MAC_10 83, r19
.message "msg 2"
.equ eq_3=16
.warning "msg 4"
lab_5: nop
ldi r19, low(eq_3)
.device ATmega48
.dw 4104
ldi r16, low(eq_0)
.macro mac_10
.dw @0, 28682
mov @1, r1
.endm
lab_11: nop
.dw 4108
.dw 4109
.equ eq_14=49
