uF_U0_3:nop 	 
	nop 
CD_NY_4: nop	
nop
.dq (byte2(  cd_ny_4 - 	 u__0 	 )	-EXP2	(	0b0100	))  /	((cd_ny_4||0x0042)  - byte2 	 ( 0b001110)) 
	.equ U__0 = 0x007  
.equ S2_UP_1=	2142153854  
 .equ   OOX1_2 	 =$004
