.dw lwrd(sm8ij_0)
.equ sm8ij_0=19764
.def _v_Xa__2=r18
.dw lwrd(SM8Ij_0)
.dw lwrd(sm8Ij_0)
.dw lwrd(sM8ij_0)
.dw lwrd(SM8IJ_0)
.dw lwrd(SM8IJ_0)
