.warning "msg 0"
.dw 4097
.dw 4098
lab_3: nop
nop
.warning "msg 5"
.define FL_1
nop
.macro mac_8
.dw @0, 28680
mov @1, r1
.endm
.dw 4105
.dw LAB_3
.dw LAB_3
.dw LAB_3
.dw 4109
.macro mac_14
.dw @0, 28686
mov @1, r1
.endm
.macro mac_15
.dw @0, 28687
mov @1, r1
.endm
.dseg
dat_16: .byte 1
.cseg
.dw dat_16
.ifdef FL_2
.dw 53745
.else
.dw 3605
.endif
.macro mac_18
.dw @0, 28690
mov @1, r1
.endm
