.ifdef FL_2
.dw 53744
.else
.dw 3605
.endif
nop
.dw 4098
.dseg
dat_3: .byte 2
.cseg
.dw dat_3
.dseg
dat_4: .byte 3
.cseg
.dw dat_4
nop
.dseg
dat_6: .byte 3
.cseg
.dw dat_6
nop
nop
nop
.equ eq_10=37
.device ATtiny13
