b_1: NOP ; */ not really
LDS r28, WV4ET__0
LDI r25, low(B_1) ; x ; y
LDS r16, wv4et__0
.dw lwrd(B_1)
.dseg
wv4et__0: .byte 0x02 // r16: .db 1
.cseg
sts wv4et__0, r30 // 1, 2, 3
STS WV4ET__0, r6 ; nop
.dd WV4ET__0+01 /* nop */
Ldi r21, LOW(WV4ET__0) ; .endif
lds r4, wv4et__0 // x ; y
