.dw 4096
.equ eq_1=10
.dseg
dat_2: .byte 1
.cseg
.dw dat_2
lab_3: nop
.ifdef FL_3
.dw 53748
.else
.dw 3605
.endif
.macro mac_5
.dw @0, 28677
mov @1, r1
.endm
.dw 4102
.dw 4103
.dw 4104
.device ATmega2560
.ifdef FL_3
.dw 53754
.else
.dw 3605
.endif
lab_11: nop
.equ eq_12=43
.dseg
dat_13: .byte 2
.cseg
.dw dat_13
lab_14: nop
.dseg
dat_15: .byte 1
.cseg
.dw dat_15
ldi r17, low(eq_1)
