lab_0: nop
lab_1: nop
.define FL_1
.ifdef FL_0
.dw 53747
.else
.dw 3605
.endif
nop
.dw 4101
.macro mac_6
.dw @0, 28678
mov @1, r1
.endm
.dseg
dat_7: .byte 1
.cseg
.dw dat_7
.dw LAB_9
lab_9: nop
MAC_6 60, r28
.dw LAB_0
.device ATtiny13
.dw 4109
