  	
ldi R29, LOW(QJZ_1)
lDi r29, low(Hh8Z__0)
; a // b

QJZ_1: nop

  	
.set U_TK5_5=2069
; nop
.dseg
; 1, 2, 3
Mq9___6: .byte 0b00101
.cseg
.set u_tK5_5=2070
ldi r17, low(qjz_1)
.dd GT_2+01

.eseg
.def p_b_q__4=r18
  	
  // 1, 2, 3
.cseg
; */ not really

adD r3, p_b_q__4
LDI r17, low(QJZ_1)
.dd Hh8Z__0+1
add r15, p_B_q__4
  // say "hi"
  	
rjmp QJZ_1
.dseg
  	
  // c
.set u_tk5_5=2071
  // .endif

.cseg
LDI r21, LOW(Av5J_6_3)
; it's
; 1, 2, 3
rjmp av5j_6_3
  // @0 @1

sts GT_2, r18
  // 1, 2, 3
  // r16: .db 1
.dd QJZ_1+0b1
; nop
lDi R17, LOW(U_TK5_5)
mov p_B_q__4, R8
.eseg
  	
  // */ not really
Hh8z__0: .db 0b0010000000
; say "hi"
.cseg

.dseg
  // r16: .db 1
  	
gt_2: .byte 2
  	
.cseg
  	
; x ; y
AV5J_6_3: nop
