.dw 4096
.dseg
dat_1: .byte 1
.cseg
.dw dat_1
.equ eq_2=13
lab_3: nop
.macro mac_4
.dw @0, 28676
mov @1, r1
.endm
.dw LAB_3
.dw LAB_3
.message "msg 7"
ldi r18, low(eq_2)
