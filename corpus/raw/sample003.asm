.set C__AH_4=1423
.eseg
_IIZX_5: .db 135
.cseg
.dw lwrd(_IizX_5)
TV_0: nop
.dw lwrd(wa_rZ_2)
.set C__AH_4=1424
.set _4O_6__3=c__ah_4+5
.dw lwrd(C__AH_4)
rjmp Tv_0
.dseg
.set O_1=2426
.cseg
.set C__Ah_4=O_1+4
LDI r25, low(c__ah_4)
ldi r21, LOW(tv_0)
.dw lwrd(TV_0)
.dd c__ah_4+1
.eseg
WA_RZ_2: .db 217
.cseg
