 .def ___0 	 =  r18
; x ; y
 	 .undef ___0/* say "hi" */
  // x ; y
 .def ___0 	 = 	 r19	; @0 @1
mov	___0	,	r12
 mov ___0  ,  r0
mov ___0,r8; @0 @1
  	
.equ	 O_1 	 =	064376 ; a // b
; 1, 2, 3

  ldi	 r21 ,	low(  o_1) /* it's */
  	

add	r23 	 ,  ___0	/* r16: .db 1 */
 	 .dw	 lwrd( O_1) // x ; y
  	
; it's
.undef ___0
  // x ; y
ldi r25,low (o_1	)

ldi   r21	,  low ( o_1  )	/* c */
.dw lwrd 	 (o_1 	 ); a // b
	.def ___0 =r20

 	 ldi   r17	, 	 low (O_1)
; @0 @1
  // .endif
 .eseg

 	 .undef	___0 ; */ not really
; x ; y
 	 .cseg
 .dd	O_1  +  0b001 ; nop
  	
 	 .def ___0=	r21
