.equ b7BrB_1=170
fv2du_3: nop
nop
_1_y_4: nop
nop
.dq (0b0010000000>>1)+-low($d8fab03f)
.equ CH_0=0x0078
.equ B_2=-0b001001
