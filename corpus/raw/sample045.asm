.equ	 __0	= 	 47	
.equ U_2=	88 	 
m_3:	nop 	 
  nop
nop 	 
lV2_8_4:  nop 	 
 nop 
nop
 	 .dq 9 	 &&248&  143  
.equ   Q_1  =  13
