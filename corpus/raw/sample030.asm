MAC_4 110, r30
MAC_4 233, r25
lab_2: nop
.dw LAB_2
.macro mac_4
.dw @0, 28676
mov @1, r1
.endm
MAC_4 202, r26
MAC_4 7, r23
.dw 4103
lab_8: nop
.dw LAB_8
.define FL_1
